CONSTANTS
  MaxR = 9
  Amps = {1, 10, 85}
  Scale = 100
SPECIFICATION Spec
INVARIANT C19_RootFloorIsTheFloorOfTheRoot
INVARIANT C19_RootMonotone
INVARIANT C19_OracleAcceptsAnInterval
INVARIANT C19_ScaledOracleIsTight
INVARIANT C19_OracleMonotoneInTolerance
INVARIANT C03_AcceptedOutputKeepsTheInvariant
INVARIANT C03_RoundTripNeverProfits
INVARIANT C19_AcceptedOutputBelowReserve
CHECK_DEADLOCK FALSE
