CONSTANTS
  Users = {a, b}
  MaxEp = 5
  MaxOps = 10
  Amts = {1, 2}
  Mults = {2, 5}
  Rate = 1260
  FStart = 1
  FEnd = 5
  MaxAmt = 4
  FixSync = TRUE
  FixWeights = TRUE
  FixEarliest = TRUE
SPECIFICATION Spec
INVARIANT C06_NoOverpay
INVARIANT C06_NoStarvation
INVARIANT C07_ExactShare
INVARIANT C10_TotalCoversUsers
INVARIANT C06_EpochBudget
INVARIANT C07_QueryEqualsReference
INVARIANT PrintReplay
CHECK_DEADLOCK FALSE
