---------------------------- MODULE MC_FarmLife ----------------------------
(* Custody and lifecycle model of the farm manager (C05, C08, C09, C11): farms are created, expanded,
   closed (manually or automatically once expired, when somebody creates a farm), positions are opened
   (also by the pool manager on behalf of a user), topped up, closed fully or partially, withdrawn
   normally or through the emergency exit with its penalty split; rewards are claimed in arbitrary
   admissible amounts (the exact shares are MC_Farm's subject). The reward token may be the LP token.

   Formulas (emission rate, expansion, penalty, owner shares) are the operators of Farms.tla. *)
EXTENDS Integers, FiniteSets, FiniteSetsExt, Sequences, TLC
CONSTANTS Users,          \* ordinary accounts (model values)
          MaxT,           \* time runs 0..MaxT; one epoch = EpLen ticks
          EpLen, Expiry,  \* farm expiration time in ticks after the farm's end epoch
          FarmIds, PosIds,
          MaxConc,        \* max_concurrent_farms
          FeeAmt,         \* farm creation fee (paid in the reward denom "rw" or in "fee", see FeeDenom)
          FeeDenom,
          RewardDenoms,   \* subset of {"rw", "lp"}: a farm may pay in the LP token itself
          Amts, Durs, BasePenalty,
          MaxOps          \* bound on the number of non-tick operations per behaviour

IAdd(a, b) == a + b
ISub(a, b) == IF a >= b THEN a - b ELSE 0
IMul(a, b) == a * b
IDiv(a, b) == a \div b
ILe(a, b) == a <= b
INat(n) == n
F == INSTANCE Farms WITH Add <- IAdd, Sub <- ISub, Mul <- IMul, Div <- IDiv, Le <- ILe, N <- INat, DecScale <- 100

FM == "fm"  FC == "fc"  PM == "pm"  OW == "owner"
Accts == Users \cup {FM, FC, PM, OW}
Denoms == {"lp", "rw", "fee"}
None == [none |-> TRUE]

VARIABLES now, bank, farms, pos, refundBlocked, last, ops
vars == <<now, bank, farms, pos, refundBlocked, last, ops>>
View == <<now, bank, farms, pos, refundBlocked, ops>>

Epoch == now \div EpLen
(* weight multiplier of a lock duration: Durs are indices 1..; 1 -> 1x, 2 -> 16x (the curve's ends) *)
Mult(d) == IF d = 1 THEN 1 ELSE 16
Weight(a, d) == a * Mult(d)
DurTicks(d) == d * EpLen

Init == /\ now = 0
        /\ bank = [a \in Accts |-> [d \in Denoms |-> IF a \in Users \cup {PM, OW} THEN 40 ELSE 0]]
        /\ farms = [i \in FarmIds |-> None]
        /\ pos = [i \in PosIds |-> None]
        /\ refundBlocked \in BOOLEAN      \* a token whose transfers fail (refund of a closed farm is swallowed)
        /\ last = [op |-> "init", actor |-> OW]
        /\ ops = 0

Live(i) == farms[i] # None
FarmExpired(f) == f.amount - f.claimed = 0 \/ (f.end + 1) * EpLen + Expiry < now
Move(b, from, to, d, x) == [b EXCEPT ![from][d] = @ - x, ![to][d] = @ + x]

(* ---------------------------------------------------------------- farms *)
(* refunds of the given farms to their owners; a blocked transfer is swallowed (reply_on_error) *)
RECURSIVE Refund(_, _)
Refund(b, S) ==
  IF S = {} THEN b
  ELSE LET i == CHOOSE x \in S : TRUE
           f == farms[i]
           b1 == IF refundBlocked /\ f.denom = "rw" THEN b ELSE Move(b, FM, f.owner, f.denom, f.amount - f.claimed)
       IN Refund(b1, S \ {i})
CreateFarm(u, i, d, amt, start, end, paidFee) ==
  LET expired == {j \in FarmIds : Live(j) /\ FarmExpired(farms[j])}
      liveCnt == Cardinality({j \in FarmIds : Live(j)} \ expired)
      fee == IF FeeDenom = "same" THEN d ELSE FeeDenom
      b0 == Refund(bank, expired)
      b1 == Move(b0, u, FM, d, amt)
      b2 == IF FeeAmt = 0 THEN b1
            ELSE Move(Move(b1, u, FM, fee, paidFee), FM, FC, fee, FeeAmt)
      b3 == IF FeeAmt # 0 /\ fee # d /\ paidFee > FeeAmt THEN Move(b2, FM, u, fee, paidFee - FeeAmt) ELSE b2
  IN /\ ~Live(i) /\ liveCnt < MaxConc
     /\ F!EpochsValid(Epoch, 3, start, end)
     /\ paidFee >= FeeAmt /\ (FeeAmt = 0 => paidFee = 0) /\ (fee = d => paidFee = FeeAmt)
     /\ bank[u][d] >= amt + (IF fee = d THEN paidFee ELSE 0) /\ (fee # d => bank[u][fee] >= paidFee)
     /\ bank' = b3
     /\ farms' = [j \in FarmIds |-> IF j = i THEN [owner |-> u, denom |-> d, amount |-> amt, claimed |-> 0,
                                                    rate |-> F!EmissionRate(amt, start, end), start |-> start, end |-> end]
                                    ELSE IF j \in expired THEN None ELSE farms[j]]
     /\ last' = [op |-> "create_farm", actor |-> u]
     /\ UNCHANGED <<now, pos, refundBlocked>>
ExpandFarm(u, i, amt) ==
  /\ Live(i) /\ farms[i].owner = u /\ Epoch < farms[i].end /\ ~FarmExpired(farms[i])
  /\ F!ExpansionValid(farms[i], amt) /\ bank[u][farms[i].denom] >= amt
  /\ bank' = Move(bank, u, FM, farms[i].denom, amt)
  /\ farms' = [farms EXCEPT ![i].amount = @ + amt, ![i].end = @ + amt \div farms[i].rate]
  /\ last' = [op |-> "expand_farm", actor |-> u]
  /\ UNCHANGED <<now, pos, refundBlocked>>
CloseFarm(u, i) ==
  /\ Live(i) /\ (u = farms[i].owner \/ u = OW)
  /\ bank' = Refund(bank, {i})
  /\ farms' = [farms EXCEPT ![i] = None]
  /\ last' = [op |-> "close_farm", actor |-> u]
  /\ UNCHANGED <<now, pos, refundBlocked>>
(* a claim pays some admissible amount of one farm: within what it has emitted and not yet paid *)
Claim(u, i, x) ==
  /\ Live(i) /\ \E p \in PosIds : pos[p] # None /\ pos[p].owner = u /\ pos[p].open
  /\ x > 0 /\ farms[i].claimed + x <= farms[i].rate * F!EmittedEpochs(farms[i], Epoch)
  /\ farms[i].claimed + x <= farms[i].amount
  /\ bank' = Move(bank, FM, u, farms[i].denom, x)
  /\ farms' = [farms EXCEPT ![i].claimed = @ + x]
  /\ last' = [op |-> "claim", actor |-> u]
  /\ UNCHANGED <<now, pos, refundBlocked>>

(* ---------------------------------------------------------------- positions *)
PosCreate(sender, recv, i, amt, d) ==
  /\ pos[i] = None /\ (recv = sender \/ sender = PM) /\ recv \in Users
  /\ bank[sender]["lp"] >= amt
  /\ bank' = Move(bank, sender, FM, "lp", amt)
  /\ pos' = [pos EXCEPT ![i] = [owner |-> recv, amt |-> amt, dur |-> d, open |-> TRUE, expiring |-> -1]]
  /\ last' = [op |-> "pos_create", actor |-> sender]
  /\ UNCHANGED <<now, farms, refundBlocked>>
PosExpand(sender, i, amt) ==
  /\ pos[i] # None /\ pos[i].open /\ (sender = pos[i].owner \/ sender = PM)
  /\ bank[sender]["lp"] >= amt
  /\ bank' = Move(bank, sender, FM, "lp", amt)
  /\ pos' = [pos EXCEPT ![i].amt = @ + amt]
  /\ last' = [op |-> "pos_expand", actor |-> sender]
  /\ UNCHANGED <<now, farms, refundBlocked>>
PosClose(u, i, amt, j) ==      \* amt = whole amount: full close; less: split off closed position j
  /\ pos[i] # None /\ pos[i].open /\ pos[i].owner = u /\ amt <= pos[i].amt
  /\ IF amt = pos[i].amt
     THEN pos' = [pos EXCEPT ![i].open = FALSE, ![i].expiring = now + DurTicks(pos[i].dur)]
     ELSE /\ pos[j] = None /\ j # i
          /\ pos' = [pos EXCEPT ![i].amt = @ - amt,
                                ![j] = [owner |-> u, amt |-> amt, dur |-> pos[i].dur, open |-> FALSE, expiring |-> now + DurTicks(pos[i].dur)]]
  /\ last' = [op |-> "pos_close", actor |-> u]
  /\ UNCHANGED <<now, bank, farms, refundBlocked>>
Unlocked(p) == ~p.open /\ p.expiring <= now
PosWithdraw(u, i) ==
  /\ pos[i] # None /\ pos[i].owner = u /\ Unlocked(pos[i])
  /\ bank' = Move(bank, FM, u, "lp", pos[i].amt)
  /\ pos' = [pos EXCEPT ![i] = None]
  /\ last' = [op |-> "pos_withdraw", actor |-> u]
  /\ UNCHANGED <<now, farms, refundBlocked>>
ActiveOwners == {farms[i].owner : i \in {j \in FarmIds : Live(j) /\ farms[j].start <= Epoch /\ ~FarmExpired(farms[j])}}
RECURSIVE PayOwners(_, _, _)
PayOwners(b, S, share) == IF S = {} THEN b ELSE LET o == CHOOSE x \in S : TRUE IN PayOwners(Move(b, FM, o, "lp", share), S \ {o}, share)
Emergency(u, i) ==
  /\ pos[i] # None /\ pos[i].owner = u /\ ~Unlocked(pos[i])
  /\ LET p == pos[i]
         rem == IF p.open THEN DurTicks(p.dur) ELSE p.expiring - now
         pen == F!PenaltyAsComputed(p.amt, DurTicks(p.dur), rem, BasePenalty, Weight(p.amt, p.dur))
         share == F!SharePerOwner(pen, Cardinality(ActiveOwners))
         toOwners == ActiveOwners # {} /\ share > 0
         b1 == Move(bank, FM, u, "lp", p.amt - pen)
         b2 == IF toOwners THEN PayOwners(b1, ActiveOwners, share) ELSE b1
         b3 == Move(b2, FM, FC, "lp", IF toOwners THEN pen - F!OwnerCommission(pen) ELSE pen)
     IN /\ pen < p.amt
        /\ bank' = b3
  /\ pos' = [pos EXCEPT ![i] = None]
  /\ last' = [op |-> "emergency", actor |-> u]
  /\ UNCHANGED <<now, farms, refundBlocked>>
Tick == now < MaxT /\ now' = now + 1 /\ last' = [op |-> "tick", actor |-> OW] /\ UNCHANGED <<bank, farms, pos, refundBlocked, ops>>

Op ==
  \/ \E u \in Users \cup {OW}, i \in FarmIds :
        \/ \E d \in RewardDenoms, amt \in {8, 13}, start \in {Epoch + 1}, len \in {2, 4}, pf \in {FeeAmt, FeeAmt + 1} :
              CreateFarm(u, i, d, amt, start, start + len, pf)
        \/ \E amt \in {2, 3, 4, 6} : ExpandFarm(u, i, amt)
        \/ CloseFarm(u, i)
        \/ \E x \in {1, 3} : Claim(u, i, x)
  \/ \E s \in Users \cup {PM}, r \in Users, i \in PosIds, amt \in Amts, d \in Durs : PosCreate(s, r, i, amt, d)
  \/ \E s \in Users \cup {PM}, i \in PosIds, amt \in Amts : PosExpand(s, i, amt)
  \/ \E u \in Users, i \in PosIds : pos[i] # None /\ \E j \in PosIds, amt \in Amts \cup {pos[i].amt} : PosClose(u, i, amt, j)
  \/ \E u \in Users, i \in PosIds : PosWithdraw(u, i) \/ Emergency(u, i)
Next == Tick \/ (ops < MaxOps /\ ops' = ops + 1 /\ Op)
Spec == Init /\ [][Next]_vars

(* ---------------------------------------------------------------- properties *)
SumF(S, f(_)) == FoldSet(LAMBDA x, acc : f(x) + acc, 0, S)
Locked(d) == IF d = "lp" THEN SumF({i \in PosIds : pos[i] # None}, LAMBDA i : pos[i].amt) ELSE 0
Owed(d) == SumF({i \in FarmIds : Live(i) /\ farms[i].denom = d}, LAMBDA i : farms[i].amount - farms[i].claimed)
C05_FarmBacked == \A d \in Denoms : bank[FM][d] >= Locked(d) + Owed(d)
C05_NoNegativeBalance == \A a \in Accts, d \in Denoms : bank[a][d] >= 0
(* tokens are neither created nor destroyed by the farm manager *)
C11_Conservation == \A d \in Denoms : SumF(Accts, LAMBDA a : bank[a][d]) = 40 * (Cardinality(Users) + 2)
C11_FarmLimit == Cardinality({i \in FarmIds : Live(i) /\ ~FarmExpired(farms[i])}) <= MaxConc
C06_ClaimedWithinEmission == \A i \in FarmIds : Live(i) => /\ farms[i].claimed <= farms[i].amount
                                                           /\ farms[i].claimed <= farms[i].rate * F!EmittedEpochs(farms[i], Epoch)
(* the farm manager keeps nothing but dust of penalty shares and swallowed refunds beyond its obligations:
   the excess never decreases through user operations other than... (informational, not a property) *)
(* C08: a position's recorded amount changes only through its owner (or the pool manager topping up),
   and LP leaves the contract towards the owner only *)
C08_OnlyOwnerMoves ==
  [][\A i \in PosIds : (pos[i] # None /\ pos'[i] # pos[i]) =>
        \/ last'.actor = pos[i].owner
        \/ (last'.actor = PM /\ pos'[i] # None /\ pos'[i].amt >= pos[i].amt /\ pos'[i].owner = pos[i].owner)]_vars
C08_CreateForOthersOnlyByPm ==
  [][\A i \in PosIds : (pos[i] = None /\ pos'[i] # None /\ last'.op = "pos_create") => (pos'[i].owner = last'.actor \/ last'.actor = PM)]_vars
C08_LpConserved ==     \* closing (also partially) neither creates nor loses LP
  [][last'.op = "pos_close" => Locked("lp")' = Locked("lp") /\ bank' = bank]_vars
C08_WithdrawInFullAfterUnlock ==
  [][last'.op = "pos_withdraw" =>
        \E i \in PosIds : /\ pos[i] # None /\ pos'[i] = None /\ Unlocked(pos[i])
                          /\ bank'[pos[i].owner]["lp"] = bank[pos[i].owner]["lp"] + pos[i].amt]_vars
(* C09: what leaves on an emergency exit is exactly the position; the owner loses at most 90% *)
C09_EmergencyAccounted ==
  [][last'.op = "emergency" =>
        \E i \in PosIds : /\ pos[i] # None /\ pos'[i] = None
                          /\ bank[FM]["lp"] - bank'[FM]["lp"] <= pos[i].amt
                          /\ bank[FM]["lp"] - bank'[FM]["lp"] >= pos[i].amt - Cardinality(ActiveOwners)
                          /\ (ActiveOwners = {} => bank[FM]["lp"] - bank'[FM]["lp"] = pos[i].amt)
                          /\ (pos[i].owner \notin ActiveOwners =>
                                10 * (bank'[pos[i].owner]["lp"] - bank[pos[i].owner]["lp"]) >= pos[i].amt)]_vars
(* C11: only the farm's owner receives its remainder; closing pays nobody else *)
C11_RefundOnlyToOwner ==
  [][last'.op = "close_farm" =>
        \A a \in Accts \ {FM} : \A d \in Denoms : bank'[a][d] # bank[a][d] =>
           \E i \in FarmIds : Live(i) /\ farms'[i] = None /\ farms[i].owner = a /\ farms[i].denom = d
                              /\ bank'[a][d] = bank[a][d] + farms[i].amount - farms[i].claimed]_vars
(* reachability probes (used once by hand / by the vacuity self-test: each must be violated) *)
NeverOp(o) == last.op # o
NeverAutoClose == ~(last.op = "create_farm" /\ \E i \in FarmIds : Live(i) /\ farms[i].claimed > 0)
NeverSwallowed == ~(last.op = "close_farm" /\ refundBlocked /\ bank[FM]["rw"] > Owed("rw"))
NeverPenaltyToOwners == ~(last.op = "emergency" /\ \E u \in Users : bank[u]["lp"] > 40)
=============================================================================
