------------------------------- MODULE BigNat -------------------------------
(* Natural numbers of unbounded size as little-endian sequences of base-10^4 limbs.
   <<>> is zero; the last limb is never 0. Pure TLA+ definitions; TLC may override. *)
EXTENDS Naturals, Sequences
LOCAL B == 10000

RECURSIVE Norm(_)
Norm(s) == IF s = <<>> THEN <<>> ELSE IF s[Len(s)] = 0 THEN Norm(SubSeq(s, 1, Len(s)-1)) ELSE s

RECURSIVE FromNat(_)
FromNat(n) == IF n = 0 THEN <<>> ELSE <<n % B>> \o FromNat(n \div B)

RECURSIVE AddC(_,_,_)
AddC(a, b, c) ==
  IF a = <<>> /\ b = <<>> THEN (IF c = 0 THEN <<>> ELSE <<c>>)
  ELSE LET x == IF a = <<>> THEN 0 ELSE Head(a)
           y == IF b = <<>> THEN 0 ELSE Head(b)
           s == x + y + c
       IN <<s % B>> \o AddC(IF a = <<>> THEN <<>> ELSE Tail(a), IF b = <<>> THEN <<>> ELSE Tail(b), s \div B)
Add(a, b) == AddC(a, b, 0)

RECURSIVE MulLimb(_,_,_)
MulLimb(a, d, c) == IF a = <<>> THEN (IF c = 0 THEN <<>> ELSE <<c>>)
                    ELSE LET p == Head(a) * d + c IN <<p % B>> \o MulLimb(Tail(a), d, p \div B)
RECURSIVE Mul(_,_)
Mul(a, b) == IF b = <<>> \/ a = <<>> THEN <<>>
             ELSE Add(Norm(MulLimb(a, Head(b), 0)), LET r == Mul(a, Tail(b)) IN IF r = <<>> THEN <<>> ELSE <<0>> \o r)

RECURSIVE CmpRev(_,_,_)   \* compares equal-length, from most significant limb
CmpRev(a, b, i) == IF i = 0 THEN 0 ELSE IF a[i] < b[i] THEN 0-1 ELSE IF a[i] > b[i] THEN 1 ELSE CmpRev(a, b, i-1)
Cmp(a, b) == IF Len(a) < Len(b) THEN 0-1 ELSE IF Len(a) > Len(b) THEN 1 ELSE CmpRev(a, b, Len(a))
Le(a, b) == Cmp(a, b) <= 0
Lt(a, b) == Cmp(a, b) < 0

RECURSIVE SubB(_,_,_)   \* a - b - borrow, requires a >= b
SubB(a, b, c) ==
  IF a = <<>> THEN <<>>
  ELSE LET y == (IF b = <<>> THEN 0 ELSE Head(b)) + c
           x == Head(a)
           d == IF x >= y THEN x - y ELSE x + B - y
           c2 == IF x >= y THEN 0 ELSE 1
       IN <<d>> \o SubB(Tail(a), IF b = <<>> THEN <<>> ELSE Tail(b), c2)
Sub(a, b) == IF Le(a, b) THEN <<>> ELSE Norm(SubB(a, b, 0))   \* monus

\* floor division by repeated digit search, most significant limb first
RECURSIVE DigitSearch(_,_,_,_)
DigitSearch(r, b, lo, hi) == \* largest d in lo..hi with d*b <= r
  IF lo = hi THEN lo
  ELSE LET mid == (lo + hi + 1) \div 2 IN
       IF Le(Mul(FromNat(mid), b), r) THEN DigitSearch(r, b, mid, hi) ELSE DigitSearch(r, b, lo, mid - 1)
Div(a, b) == \* b # 0
  LET RECURSIVE Go(_,_,_)
      Go(i, q, r) ==
        IF i = 0 THEN Norm(q)
        ELSE LET r1 == Norm(<<a[i]>> \o r)
                 d  == DigitSearch(r1, b, 0, B - 1)
                 r2 == Sub(r1, Mul(FromNat(d), b))
             IN Go(i - 1, <<d>> \o q, r2)
  IN Go(Len(a), <<>>, <<>>)
=============================================================================
