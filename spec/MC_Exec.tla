------------------------------ MODULE MC_Exec ------------------------------
(* The response shapes of the DEX's entry points (number and kind of internal dispatches and their reply
   policies, read off the contracts and cross-checked against the call logs the fault harness records)
   executed under Cw.tla with a failure injected at every dispatch.
   C20: a failed transaction commits nothing; the only caught failure is the refund of a farm being
   closed, and it removes only that refund. C14: the single-asset deposit chain (execute -> swap
   sub-message with reply-on-success -> reply -> self-call -> farm-manager call) is all-or-nothing. *)
EXTENDS Naturals, Sequences, FiniteSets, TLC
L(p) == [leaf |-> TRUE, policy |-> p, kids |-> <<>>, reply |-> 0]
C(p, kids, reply) == [leaf |-> FALSE, policy |-> p, kids |-> kids, reply |-> reply]
(* node ids: 1xx swap, 2xx provide (two assets, locked), 3xx single-asset deposit with lock, 4xx withdraw,
   5xx claim, 6xx emergency withdraw (two farm owners), 7xx close farm, 8xx create farm closing two expired farms *)
TreeDef ==
  (100 :> C("never", <<101, 102, 103, 104>>, 0) @@ 101 :> L("never") @@ 102 :> L("never") @@ 103 :> L("never") @@ 104 :> L("never")) @@
  (200 :> C("never", <<201, 202, 203>>, 0) @@ 201 :> L("never") @@ 202 :> L("never") @@ 203 :> C("never", <<204>>, 0) @@ 204 :> L("never")) @@
  \* 300 provide(single): funds in (301); sub-message 302 = self.swap (reply on success -> 310)
  (300 :> C("never", <<301, 302>>, 0) @@ 301 :> L("never")
       @@ 302 :> C("success", <<303, 304, 305, 306>>, 310) @@ 303 :> L("never") @@ 304 :> L("never") @@ 305 :> L("never") @@ 306 :> L("never")
       @@ 310 :> C("never", <<311>>, 0)                       \* reply handler: validates balances, dispatches self.provide
       @@ 311 :> C("never", <<312, 313, 314>>, 0) @@ 312 :> L("never") @@ 313 :> L("never")   \* funds to self, mint
       @@ 314 :> C("never", <<315>>, 0) @@ 315 :> L("never")) @@                               \* farm manager create/expand position: LP in
  (400 :> C("never", <<401, 402, 403>>, 0) @@ 401 :> L("never") @@ 402 :> L("never") @@ 403 :> L("never")) @@
  (500 :> C("never", <<501>>, 0) @@ 501 :> L("never")) @@
  (600 :> C("never", <<601, 602, 603, 604>>, 0) @@ 601 :> L("never") @@ 602 :> L("never") @@ 603 :> L("never") @@ 604 :> L("never")) @@
  (700 :> C("never", <<701>>, 0) @@ 701 :> L("error")) @@
  (800 :> C("never", <<801, 802, 803, 804, 805>>, 0) @@ 801 :> L("never") @@ 802 :> L("never") @@ 803 :> L("never") @@ 804 :> L("error") @@ 805 :> L("error"))
W == INSTANCE Cw WITH Tree <- TreeDef
Roots == {100, 200, 300, 400, 500, 600, 700, 800}
RefundLeaves == {701, 804, 805}

VARIABLES root, failAt, res
vars == <<root, failAt, res>>
Init == root \in Roots /\ failAt \in 0..12 /\ res = W!Run(root, 0, failAt)
Next == UNCHANGED vars
Spec == Init /\ [][Next]_vars

Full(r) == W!Run(r, 0, 0).eff
C20_FailedTxIsNoOp == ~res.ok => res.eff = {}
C20_OnlyRefundsAreSwallowed == res.ok => (Full(root) \ res.eff) \subseteq RefundLeaves
C20_SwallowedRefundRemovesOnlyItself ==
  (res.ok /\ failAt # 0 /\ failAt <= W!Leaves(root)) => Cardinality(Full(root) \ res.eff) = 1
C20_FaultInsideNonRefundAborts ==
  (failAt # 0 /\ failAt <= W!Leaves(root) /\ res.ok) => root \in {700, 800}
C14_SingleAssetAllOrNothing == root = 300 => (res.eff = {} \/ res.eff = Full(300))
C20_NoFaultCommitsEverything == (failAt = 0 \/ failAt > W!Leaves(root)) => (res.ok /\ res.eff = Full(root))
=============================================================================
