------------------------------ MODULE MC_Auth ------------------------------
(* Complete authorisation graph (C15): for each of the four contracts, every reachable ownership state x
   every privileged message variant x every sender role x funds attached or not. TLC enumerates the
   graph; every edge is printed (the message label is kept out of the VIEW so labels do not multiply
   states) and the harness replays every edge on the real contracts. *)
EXTENDS Naturals, TLC, Json, Sequences
O == INSTANCE Ownable
CONSTANTS Contracts, Roles, Proposable
VARIABLES c, st, cfgv, last
vars == <<c, st, cfgv, last>>
View == <<c, st, cfgv>>

ConfigMsgs(k) ==
  CASE k = "pm" -> {"fee_collector", "farm_manager", "pool_creation_fee", "toggle_swaps", "toggle_deposits", "toggle_withdrawals", "nothing"}
    [] k = "fm" -> {"fee_collector", "epoch_manager", "pool_manager", "create_farm_fee", "max_concurrent_farms", "max_farm_epoch_buffer",
                    "min_unlocking_duration", "max_unlocking_duration", "farm_expiration_time", "emergency_unlock_penalty", "nothing"}
    [] k = "em" -> {"epoch_config", "nothing"}        \* "nothing": the privileged message with every field left out
    [] k = "fc" -> {}
Msgs(k) == {[kind |-> "config", what |-> w, to |-> "none", exp |-> "none"] : w \in ConfigMsgs(k)}
           \cup {[kind |-> "transfer", what |-> "transfer", to |-> t, exp |-> x] : t \in Proposable, x \in {"none", "future"}}
           \cup {[kind |-> "accept", what |-> "accept", to |-> "none", exp |-> "none"],
                 [kind |-> "renounce", what |-> "renounce", to |-> "none", exp |-> "none"]}

Pseudo(k) == [msg |-> [kind |-> k, what |-> k, to |-> "none", exp |-> "none"], sender |-> "none", funds |-> FALSE, ok |-> TRUE]
Init == /\ c \in Contracts
        /\ st = [owner |-> "o", pending |-> "none", exp |-> "none"]
        /\ cfgv = 0
        /\ last = Pseudo("init")
Send(sender, msg, funds) ==
  /\ st' = O!After(st, sender, msg, funds)
  /\ cfgv' = IF O!Accepted(st, sender, msg, funds) /\ msg.kind = "config" /\ msg.what # "nothing" THEN 1 ELSE cfgv   \* "config was changed at least once"
  /\ last' = [msg |-> msg, sender |-> sender, funds |-> funds, ok |-> O!Accepted(st, sender, msg, funds)]
  /\ UNCHANGED c
Tick == /\ st' = O!Expire(st) /\ st' # st /\ last' = Pseudo("tick") /\ UNCHANGED <<c, cfgv>>
Next == Tick \/ \E s \in Roles, m \in Msgs(c), f \in BOOLEAN : Send(s, m, f)
Spec == Init /\ [][Next]_vars

(* ------------- properties of the design *)
C15_OnlyOwnerChangesConfig == [][cfgv' # cfgv => (last'.sender = st.owner /\ ~last'.funds)]_vars
C15_OwnershipMovesOnlyByProposeAccept ==
  [][st'.owner # st.owner => \/ (last'.msg.kind = "accept" /\ last'.sender = st.pending /\ st'.owner = st.pending)
                             \/ (last'.msg.kind = "renounce" /\ last'.sender = st.owner /\ st'.owner = "none")]_vars
C15_PendingOnlySetByOwner == [][(st'.pending # st.pending /\ st'.pending # "none") => last'.sender = st.owner]_vars
C15_NoFundsAccepted == [][last'.funds => (st' = st /\ cfgv' = cfgv)]_vars
C15_RenouncedIsFinal == [][st.owner = "none" => st'.owner = "none"]_vars
C15_RejectedChangesNothing == [][~last'.ok => (st' = st /\ cfgv' = cfgv)]_vars

(* every generated edge, once: source, label, target *)
PrintEdge == PrintT(<<"EDGE", ToJson([c |-> c, src |-> st, cfgv |-> cfgv, step |-> last', dst |-> st'])>>)
=============================================================================
