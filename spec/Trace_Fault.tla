----------------------------- MODULE Trace_Fault -----------------------------
(* Judges the fault-enumeration traces (harness driver `fault`): for every message kind the k-th internal
   bank / token-factory call was failed. b (ghost) is the fault-free run of the same message in the same
   state: its pre-state, post-state, ordered call list and the farms it closed. *)
EXTENDS Integers, Sequences, FiniteSets, TLC, Json, IOUtils, TraceLib
BN == INSTANCE BigNat
BAdd(a, b) == BN!Add(a, b)
BSub(a, b) == BN!Sub(a, b)
Rec == ndJsonDeserialize(IOEnv.TRACE)
VARIABLES l, cnt, base
vars == <<l, cnt, base>>

(* the k-th call of the fault-free run is the refund of a farm that run closed *)
IsRefund(b, k) ==
  /\ k <= b.ncalls /\ b.calls[k].m = "bank_send" /\ b.calls[k].from = "fm" /\ Len(b.calls[k].coins) = 1
  /\ \E i \in DOMAIN b.closed : LET c == b.closed[i] IN
        /\ b.calls[k].to = c.owner /\ b.calls[k].coins[1].d = c.denom
        /\ b.calls[k].coins[1].a = BSub(c.amount, c.claimed)
SameState(p, q) == p.bal = q.bal /\ p.supply = q.supply /\ p.pools = q.pools /\ p.fm = q.fm /\ p.pmcfg = q.pmcfg
(* as the fault-free post-state, except that the refund of call k stayed in the farm manager *)
SwallowedState(b, k, p) ==
  LET c == b.calls[k]  d == c.coins[1].d  a == c.coins[1].a
  IN /\ p.pools = b.post.pools /\ p.fm = b.post.fm /\ p.supply = b.post.supply
     /\ p.bal = [b.post.bal EXCEPT ![c.to][d] = BSub(@, a), !["fm"][d] = BAdd(@, a)]
(* number of dispatches per message shape according to spec/MC_Exec.tla *)
ModelLeaves(kind) ==
  CASE kind = "pm_swap" -> 4 [] kind = "pm_provide_lock_new" -> 3 [] kind = "pm_provide_lock_expand" -> 3
    [] kind = "pm_provide_single_lock" -> 8 [] kind = "pm_provide_single_lock_expand" -> 8
    [] kind = "pm_withdraw" -> 3 [] kind = "fm_claim_two_denoms" -> 1 [] kind = "fm_emergency_two_owners" -> 4
    [] kind = "fm_close_farm" -> 1 [] kind = "fm_create_farm_autoclose2" -> 5 [] OTHER -> -1

JudgeBase(e) ==
  [ M_fault_free_run_succeeds |-> Must(e.ok),
    \* even world variants have the farm owners MC_Exec's shapes assume (two distinct owners)
    M_dispatches_match_exec_model |-> G(e.ok /\ ModelLeaves(e.kind) # -1 /\ e.variant % 2 = 0, e.ncalls = ModelLeaves(e.kind)) ]
JudgeFault(b, e) ==
  LET inside == e.k <= b.ncalls
      refund == inside /\ IsRefund(b, e.k)
      aborts == inside /\ ~refund
  IN [ C20_failed_internal_call_aborts_everything |-> G(aborts, ~e.ok /\ e.digest_same /\ SameState(e.post, b.pre)),
       C20_nothing_left_behind_retry_equals_fault_free_run |-> G(aborts /\ e.retry.done, e.retry.ok /\ SameState(e.retry.post, b.post)),
       C20_failed_refund_does_not_block_the_close |-> G(refund, e.ok /\ SwallowedState(b, e.k, e.post)),
       C20_only_the_fault_matters |-> G(~inside, e.ok /\ SameState(e.post, b.post)),
       \* a claim is atomic with its payout: under a failing transfer it either fails, or it paid what the fault-free claim pays
       C07_claim_pays_in_full_or_fails |-> G(b.kind = "fm_claim_two_denoms" /\ inside, ~e.ok \/ e.post.bal[b.sender] = b.post.bal[b.sender]),
       C06_failed_claim_keeps_the_rewards_claimable |-> G(b.kind = "fm_claim_two_denoms" /\ inside /\ e.retry.done,
                                                         e.retry.ok /\ e.retry.post.bal[b.sender] = b.post.bal[b.sender]),
       \* the penalty of an emergency exit is paid out in full or the exit does not happen: no share may stay behind
       C09_emergency_exit_pays_every_share_or_fails |-> G(b.kind = "fm_emergency_two_owners" /\ inside, ~e.ok \/ SameState(e.post, b.post)),
       C14_single_asset_deposit_all_or_nothing |-> G(b.single /\ inside, ~e.ok /\ e.digest_same /\ ~e.post.pm_buffer),
       C14_single_asset_no_residue_after_failure |-> G(b.single /\ inside /\ e.retry.done, e.retry.ok /\ SameState(e.retry.post, b.post) /\ ~e.retry.post.pm_buffer) ]

Init == l = 1 /\ cnt = NoGuards /\ base = [set |-> FALSE]
Step == /\ l <= Len(Rec)
        /\ LET e == Rec[l]
               gs == CASE e.ev = "reset" -> NoGuards
                       [] e.ev = "driver_abort" -> [ M_driver_completed |-> Must(FALSE) ]
                       [] e.ev = "fault_base" -> JudgeBase(e)
                       [] e.ev = "fault" -> JudgeFault(base, e)
           IN /\ Report(e.i, e.sc, gs) /\ cnt' = Count(cnt, gs)
              /\ base' = IF e.ev = "fault_base" THEN [set |-> TRUE, kind |-> e.kind, ncalls |-> e.ncalls, calls |-> e.calls, closed |-> e.closed,
                                                      pre |-> e.pre, post |-> e.post, single |-> e.single, sender |-> e.sender] ELSE base
        /\ l' = l + 1
Finish == l = Len(Rec) + 1 /\ PrintCounts(cnt) /\ l' = l + 1 /\ UNCHANGED <<cnt, base>>
Spec == Init /\ [][Step \/ Finish]_vars
Accepted == /\ PrintT(<<"CONSUMED", TLCGet("stats").diameter - 2, Len(Rec)>>)
            /\ TLCGet("stats").diameter - 2 = Len(Rec)
=============================================================================
