CONSTANTS
  MaxOps = 5
  SwapAmts = {1, 4, 9}
  BurnAmts = {1, 3}
  MinLiqM = 2
  Scale = 1
  Protect = FALSE
SPECIFICATION Spec
VIEW View
INVARIANT C01_Backed
INVARIANT C01_LpHeldIsLockedMinimum
INVARIANT C02_SupplyFloor
INVARIANT C02_SupplyIsSumOfHoldings
INVARIANT C04_Conservation
INVARIANT C04_NoNegative
PROPERTY C01_ExcessOnlyFromDonationsOrOddUnit
PROPERTY C02_LpOnlyByLiquidityOps
PROPERTY C02_ValuePerLpNeverDecreases
PROPERTY C03_ProductNeverDecreasesBySwaps
PROPERTY C03_RoundTripNoProfit
PROPERTY C17_DisabledSwapsNeverMoveReserves
PROPERTY C17_DisabledDepositsNeverMint
PROPERTY C17_DisabledWithdrawalsNeverBurn
CHECK_DEADLOCK FALSE
