SPECIFICATION Spec
VIEW View
ACTION_CONSTRAINT PrintEdge
PROPERTY C15_OnlyOwnerEndsPosition
PROPERTY C15_OnlyOwnersCloseFarm
PROPERTY C15_RejectedChangesNothing
CHECK_DEADLOCK FALSE
