------------------------------- MODULE Ownable -------------------------------
(* Two-step ownership (cw-ownable, used by all four contracts) and owner-gated configuration.
   st = [owner, pending, exp]: owner / pending are accounts or "none"; exp is "none" (no deadline),
   "future" or "past" (deadline of the pending transfer relative to the current block).
   Every privileged message is non-payable. *)
EXTENDS Naturals
NoOne == "none"

(* msg = [kind, to, exp]; kinds: "config" (any UpdateConfig / feature toggle variant), "transfer", "accept", "renounce" *)
Authorised(st, sender, msg) ==
  CASE msg.kind = "config"   -> sender = st.owner /\ st.owner # NoOne
    [] msg.kind = "transfer" -> sender = st.owner /\ st.owner # NoOne
    [] msg.kind = "renounce" -> sender = st.owner /\ st.owner # NoOne
    [] msg.kind = "accept"   -> sender = st.pending /\ st.pending # NoOne /\ st.exp # "past"
Accepted(st, sender, msg, funds) == ~funds /\ Authorised(st, sender, msg)
After(st, sender, msg, funds) ==
  IF ~Accepted(st, sender, msg, funds) THEN st
  ELSE CASE msg.kind = "config"   -> st
         [] msg.kind = "transfer" -> [st EXCEPT !.pending = msg.to, !.exp = msg.exp]
         [] msg.kind = "renounce" -> [owner |-> NoOne, pending |-> NoOne, exp |-> "none"]
         [] msg.kind = "accept"   -> [owner |-> st.pending, pending |-> NoOne, exp |-> "none"]
(* time passing the deadline of a pending transfer *)
Expire(st) == IF st.exp = "future" THEN [st EXCEPT !.exp = "past"] ELSE st
(* ------------- farm- and position-level authorisation (second half of C15)
   One farm (owner fo) and one position (owner po, one-day lock) in the farm manager. ob = [farm, pos]:
   farm \in BOOLEAN (still exists), pos \in {"open", "closed", "unlocked", "gone"}. *)
ObjRoles == {"o", "fo", "po", "pmc", "x"}
ObjMsgs == {"farm_expand", "farm_close", "pos_create_for_po", "pos_expand", "pos_close", "pos_withdraw", "pos_emergency"}
ObjOk(ob, sender, m) ==
  CASE m = "farm_expand"       -> ob.farm /\ sender = "fo"
    [] m = "farm_close"        -> ob.farm /\ sender \in {"fo", "o"}
    [] m = "pos_create_for_po" -> sender \in {"pmc", "po"}
    [] m = "pos_expand"        -> ob.pos = "open" /\ sender \in {"po", "pmc"}
    [] m = "pos_close"         -> ob.pos = "open" /\ sender = "po"
    [] m = "pos_withdraw"      -> ob.pos = "unlocked" /\ sender = "po"
    [] m = "pos_emergency"     -> ob.pos \in {"open", "closed", "unlocked"} /\ sender = "po"
ObjAfter(ob, sender, m) ==
  IF ~ObjOk(ob, sender, m) THEN ob
  ELSE CASE m = "farm_close" -> [ob EXCEPT !.farm = FALSE]
         [] m = "pos_close" -> [ob EXCEPT !.pos = "closed"]
         [] m \in {"pos_withdraw", "pos_emergency"} -> [ob EXCEPT !.pos = "gone"]
         [] OTHER -> ob

=============================================================================
