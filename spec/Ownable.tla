------------------------------- MODULE Ownable -------------------------------
(* Two-step ownership (cw-ownable, used by all four contracts) and owner-gated configuration.
   st = [owner, pending, exp]: owner / pending are accounts or "none"; exp is "none" (no deadline),
   "future" or "past" (deadline of the pending transfer relative to the current block).
   Every privileged message is non-payable. *)
EXTENDS Naturals
NoOne == "none"

(* msg = [kind, to, exp]; kinds: "config" (any UpdateConfig / feature toggle variant), "transfer", "accept", "renounce" *)
Authorised(st, sender, msg) ==
  CASE msg.kind = "config"   -> sender = st.owner /\ st.owner # NoOne
    [] msg.kind = "transfer" -> sender = st.owner /\ st.owner # NoOne
    [] msg.kind = "renounce" -> sender = st.owner /\ st.owner # NoOne
    [] msg.kind = "accept"   -> sender = st.pending /\ st.pending # NoOne /\ st.exp # "past"
Accepted(st, sender, msg, funds) == ~funds /\ Authorised(st, sender, msg)
After(st, sender, msg, funds) ==
  IF ~Accepted(st, sender, msg, funds) THEN st
  ELSE CASE msg.kind = "config"   -> st
         [] msg.kind = "transfer" -> [st EXCEPT !.pending = msg.to, !.exp = msg.exp]
         [] msg.kind = "renounce" -> [owner |-> NoOne, pending |-> NoOne, exp |-> "none"]
         [] msg.kind = "accept"   -> [owner |-> st.pending, pending |-> NoOne, exp |-> "none"]
(* time passing the deadline of a pending transfer *)
Expire(st) == IF st.exp = "future" THEN [st EXCEPT !.exp = "past"] ELSE st
=============================================================================
