CONSTANTS
  Users = {a, b}
  MaxEp = 3
  MaxOps = 7
  Amts = {1, 2}
  Mults = {2, 5}
  Rate = 1000
  FStart = 1
  FEnd = 4
  MaxAmt = 4
  FixSync = TRUE
  FixWeights = TRUE
  FixEarliest = TRUE
SPECIFICATION Spec
VIEW View
SYMMETRY Sym
INVARIANT C06_NoOverpay
INVARIANT C06_NoStarvation
INVARIANT C07_ExactShare
INVARIANT C06_NeverBeyondFunds
INVARIANT C10_TotalCoversUsers
INVARIANT C06_EpochBudget
INVARIANT C10_NoWeightWithoutPosition
INVARIANT C07_QueryEqualsReference
PROPERTY C06_CursorMonotone
PROPERTY C10_EffectNextEpoch
CHECK_DEADLOCK FALSE
