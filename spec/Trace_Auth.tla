----------------------------- MODULE Trace_Auth -----------------------------
(* Judges the replay of every edge of MC_Auth's graph on the real contracts (harness driver `auth`):
   the outcome and the resulting ownership are recomputed here from Ownable.tla (not taken from the
   prediction TLC printed), and compared with what the contracts did. *)
EXTENDS Naturals, Sequences, FiniteSets, TLC, Json, IOUtils, TraceLib
O == INSTANCE Ownable
Rec == ndJsonDeserialize(IOEnv.TRACE)
VARIABLES l, cnt
vars == <<l, cnt>>

JudgeEdge(e) ==
  IF e.tick
  THEN [ C15_expiry_only_expires |-> Must(e.obs = O!Expire(e.src) /\ e.src_obs = e.src) ]
  ELSE LET acc == O!Accepted(e.src, e.sender, e.msg, e.funds)
           aft == O!After(e.src, e.sender, e.msg, e.funds)
       IN [ C15_replay_reached_source_state |-> Must(e.src_obs = e.src),
            C15_accepted_iff_authorised |-> Must(e.ok = acc),
            C15_only_authorised_accepted |-> G(e.ok, acc),
            C15_funds_never_accepted |-> G(e.funds, ~e.ok),
            C15_ownership_after     |-> Must(e.obs = aft),
            C15_rejected_changes_nothing |-> G(~e.ok, e.digest_same /\ ~e.cfg_changed /\ e.obs = e.src),
            C20_auth_rejected_noop  |-> G(~e.ok, e.digest_same),
            C15_config_changes_only_by_accepted_config_message |-> G(e.cfg_changed, e.ok /\ e.msg.kind = "config"),
            C15_empty_update_changes_nothing |-> G(e.msg.kind = "config" /\ e.msg.what = "nothing", ~e.cfg_changed),
            M_config_message_changes_config |-> G(e.ok /\ e.msg.kind = "config" /\ e.msg.what # "nothing", e.cfg_changed) ]
JudgeObj(e) ==
  IF e.tick
  THEN [ C15_obj_time_only_unlocks |-> Must(e.src_obs = e.src /\ e.obs = (IF e.src.pos = "closed" THEN [e.src EXCEPT !.pos = "unlocked"] ELSE e.src)) ]
  ELSE [ C15_obj_replay_reached_source_state |-> Must(e.src_obs = e.src),
         C15_obj_accepted_iff_authorised |-> Must(e.ok = O!ObjOk(e.src, e.sender, e.m)),
         C15_obj_only_authorised_accepted |-> G(e.ok, O!ObjOk(e.src, e.sender, e.m)),
         C15_obj_state_after |-> Must(e.obs = O!ObjAfter(e.src, e.sender, e.m)),
         C20_obj_rejected_noop |-> G(~e.ok, e.digest_same) ]
Judge(e) == CASE e.ev = "auth_edge" -> JudgeEdge(e)
              [] e.ev = "auth_obj_edge" -> JudgeObj(e)
              [] e.ev = "auth_unreachable" -> [ M_source_state_reachable |-> Must(FALSE) ]
              \* migrate entry points (beyond the listed properties): only the chain-level admin, only to the contract's own
              \* code, only to a newer version; a refused migration changes nothing
              \* the v1.2.0 -> v1.3.0 upgrade step: switches change without the owner's toggle only here, and only for the pool it names
              [] e.ev = "auth_upgrade" -> [ M_upgrade_of_a_v120_deployment_succeeds |-> Must(e.ok /\ e.downgraded = Cardinality(DOMAIN e.before)),
                                            C17_upgrade_switches_off_only_the_named_pool |-> G(e.ok,
                                                /\ DOMAIN e.after = DOMAIN e.before
                                                /\ \A q \in DOMAIN e.after : /\ e.after[q].rest = e.before[q].rest /\ e.after[q].wd
                                                                             /\ e.after[q].sw = (q # e.named) /\ e.after[q].dep = (q # e.named)) ]
              [] e.ev = "auth_upgrade_again" -> [ S_second_upgrade_refused_and_harmless |-> Must(~e.ok /\ e.same) ]
              [] e.ev = "auth_migrate" -> [ S_migration_needs_admin_own_code_newer_version |-> Must(e.ok = (e.by_admin /\ e.c = e.code /\ e.newer)),
                                            S_refused_migration_changes_nothing |-> G(~e.ok, e.digest_same) ]
              [] e.ev = "reset" -> NoGuards
              [] e.ev = "driver_abort" -> [ M_driver_completed |-> Must(FALSE) ]
Init == l = 1 /\ cnt = NoGuards
Step == /\ l <= Len(Rec)
        /\ LET e == Rec[l]  gs == Judge(e) IN Report(e.i, e.sc, gs) /\ cnt' = Count(cnt, gs)
        /\ l' = l + 1
Finish == l = Len(Rec) + 1 /\ PrintCounts(cnt) /\ l' = l + 1 /\ UNCHANGED cnt
Spec == Init /\ [][Step \/ Finish]_vars
Accepted == /\ PrintT(<<"CONSUMED", TLCGet("stats").diameter - 2, Len(Rec)>>)
            /\ TLCGet("stats").diameter - 2 = Len(Rec)
=============================================================================
