------------------------------ MODULE MC_Epoch ------------------------------
(* Exhaustive small-domain model of the epoch manager: time advances second by second, the owner
   (or somebody else) tries configuration updates; C18 as invariants and action properties. *)
EXTENDS Integers, TLC
CONSTANTS MaxNow, MaxGenesis, Durations, MinDur, U64, Ts

IAdd(a, b) == a + b
ISub(a, b) == IF a >= b THEN a - b ELSE 0
IMul(a, b) == a * b
IDiv(a, b) == a \div b
ILe(a, b) == a <= b
INat(n) == n
E == INSTANCE Epochs WITH Add <- IAdd, Sub <- ISub, Mul <- IMul, Div <- IDiv, Le <- ILe, N <- INat,
                          U64Max <- U64, TsMax <- Ts, MinDuration <- MinDur

VARIABLES now, cfg, last   \* last: the message of the last step (excluded from the VIEW)
vars == <<now, cfg, last>>
View == <<now, cfg>>

Cfgs == [genesis : 0..MaxGenesis, duration : Durations]
Init == now = 0 /\ cfg \in {c \in Cfgs : E!ConfigValid(0, c)} /\ last = "init"
Tick == now < MaxNow /\ now' = now + 1 /\ UNCHANGED cfg /\ last' = "tick"
(* UpdateConfig: accepted only from the owner with a valid configuration; otherwise a no-op *)
Update(byOwner, c) ==
  /\ cfg' = IF byOwner /\ E!ConfigValid(now, c) THEN c ELSE cfg
  /\ last' = IF byOwner /\ E!ConfigValid(now, c) THEN "update" ELSE "update_rejected"
  /\ UNCHANGED now
Next == Tick \/ \E b \in BOOLEAN, c \in Cfgs : Update(b, c)
Spec == Init /\ [][Next]_vars

R == E!CurrentEpoch(cfg, now)
\* the chain never reaches times beyond Ts; within it every answer satisfies C18
C18_Partition == E!Partition(cfg, now, R)
C18_BeforeGenesisFails == E!BeforeGenesisFails(cfg, now, R)
C18_DefinedFromGenesis == E!DefinedFromGenesis(cfg, now, R)
C18_StartConsistent == \A id \in 0..(MaxNow + 2) : E!StartFormula(cfg, E!EpochOf(cfg, id))
C18_ConfigNeverInvalid == cfg.duration >= MinDur
\* action properties: for a fixed configuration ids never decrease, and step by at most one per second,
\* and by exactly one over one duration
C18_Monotone == [][(cfg' = cfg /\ R.ok /\ E!CurrentEpoch(cfg', now').ok)
                    => E!CurrentEpoch(cfg', now').id >= R.id]_vars
C18_StepsByOne == [][(cfg' = cfg /\ now' = now + 1 /\ R.ok /\ E!CurrentEpoch(cfg', now').ok)
                    => E!CurrentEpoch(cfg', now').id \in {R.id, R.id + 1}]_vars
C18_ExactlyOnePerDuration ==
  \A t \in 0..MaxNow : LET a == E!CurrentEpoch(cfg, t)  b == E!CurrentEpoch(cfg, t + cfg.duration)
                      IN (a.ok /\ b.ok) => b.id = a.id + 1
C18_GenesisNeverMovesToPast == [][cfg' # cfg => cfg'.genesis >= now]_vars
=============================================================================
