------------------------------- MODULE Farms -------------------------------
(* The farm manager's rules, written once over an abstract arithmetic (DESIGN 2.2) so that the same
   operators are used by the TLC models (integers) and by the trace specifications (BigNat).

   Epoch ids are always TLC integers; amounts, weights and times are numbers of the active arithmetic.
   A "step function" is a sequence of change points [e |-> epoch, w |-> value], strictly increasing
   in e; its value at epoch x is the w of the last change point with e <= x (Zero if none). This is
   the *dense* meaning the contract's sparse LP_WEIGHT_HISTORY is supposed to have (C06/C07/C10). *)
EXTENDS Integers, Sequences, FiniteSets
CONSTANTS Add(_,_), Sub(_,_), Mul(_,_), Div(_,_), Le(_,_), N(_),
          DecScale   \* 1.0 as a fixed point number: 10^18 in the contracts, small in the TLC models

Zero == N(0)
One == N(1)
Lt(a, b) == ~Le(b, a)
Min(a, b) == IF Le(a, b) THEN a ELSE b
Max(a, b) == IF Le(a, b) THEN b ELSE a
IMin(a, b) == IF a <= b THEN a ELSE b
IMax(a, b) == IF a <= b THEN b ELSE a
Dec1 == DecScale

(* ---------------------------------------------------------------- step functions *)
RECURSIVE StepValue(_, _)
StepValue(cps, x) ==
  IF cps = <<>> THEN Zero
  ELSE LET last == cps[Len(cps)] IN
       IF last.e <= x THEN last.w ELSE StepValue(SubSeq(cps, 1, Len(cps) - 1), x)
(* record value w from epoch e on (drops change points at or after e) *)
RECURSIVE SetFrom(_, _, _)
SetFrom(cps, e, w) ==
  IF cps # <<>> /\ cps[Len(cps)].e >= e THEN SetFrom(SubSeq(cps, 1, Len(cps) - 1), e, w)
  ELSE Append(cps, [e |-> e, w |-> w])
LatestValue(cps) == IF cps = <<>> THEN Zero ELSE cps[Len(cps)].w

(* ---------------------------------------------------------------- rewards (C06 / C07) *)
RewardShare(rate, w, tot) == IF tot = Zero THEN Zero ELSE Div(Mul(rate, w), tot)
(* what a user is owed by farm f for the epochs from..until (inclusive), given the dense weights *)
RECURSIVE SumShares(_, _, _, _, _)
SumShares(rate, ucps, tcps, from, until) ==
  IF from > until THEN Zero
  ELSE Add(RewardShare(rate, StepValue(ucps, from), StepValue(tcps, from)),
           SumShares(rate, ucps, tcps, from + 1, until))
FarmOwes(f, ucps, tcps, from, until) ==
  SumShares(f.rate, ucps, tcps, IMax(from, f.start), IMin(until, f.end - 1))
(* emissions of farm f over epochs <= cur *)
EmittedEpochs(f, cur) == IMax(0, IMin(cur + 1, f.end) - f.start)

(* ---------------------------------------------------------------- farm lifecycle (C11) *)
EmissionRate(amount, start, end) == Div(amount, N(end - start))
EpochsValid(cur, buffer, start, end) == start > cur /\ start < end /\ end > cur /\ start <= cur + buffer
ExpansionValid(f, amt) == f.rate # Zero /\ Mul(Div(amt, f.rate), f.rate) = amt
ExpandedEnd(f, amt, asInt(_)) == f.end + asInt(Div(amt, f.rate))

(* ---------------------------------------------------------------- weights (C10) and penalty (C09) *)
WeightBoundsOK(amt, w) == Le(amt, w) /\ Le(w, Mul(N(16), amt))

(* emergency exit: penalty share of the position, as the property states it:
     min(0.9, base * remaining/dur * weight/amt) * amt, never rounded up.
   base is a fixed point number (scale Dec1), w the weight of (amt, dur). *)
PenaltyUpper(amt, dur, rem, base, w) ==
  Min(Div(Mul(amt, N(9)), N(10)),
      Div(Mul(Mul(base, rem), w), Mul(Dec1, dur)))
(* slack allowed for the three fixed point truncations of the computation *)
PenaltySlack(amt) == Add(N(2), Div(Mul(amt, N(64)), Dec1))
PenaltyFormulaOK(pen, amt, dur, rem, base, w) ==
  LET up == PenaltyUpper(amt, dur, rem, base, w)
  IN /\ Le(pen, up)
     /\ Le(up, Add(pen, PenaltySlack(amt)))
PenaltyBoundOK(pen, amt) == Le(Mul(pen, N(10)), Mul(amt, N(9))) /\ Lt(pen, amt)
OwnerCommission(pen) == Div(pen, N(2))
SharePerOwner(pen, nOwners) == IF nOwners = 0 THEN Zero ELSE Div(OwnerCommission(pen), N(nOwners))
(* the contract's own fixed point evaluation: floor(amt * min(0.9, floor(floor(base*floor(rem/dur)) * floor(w/amt)))) *)
PenaltyAsComputed(amt, dur, rem, base, w) ==
  LET frac == Div(Mul(rem, Dec1), dur)
      mult == Div(Mul(w, Dec1), amt)
      p1 == Div(Mul(base, frac), Dec1)
      p2 == Div(Mul(p1, mult), Dec1)
      cap == Div(Mul(Dec1, N(9)), N(10))
  IN Div(Mul(amt, Min(p2, cap)), Dec1)
=============================================================================
