------------------------------ MODULE MC_Pool ------------------------------
(* Design-level model of the pool manager with two constant-product pools sharing a denom
   (A over d1/d2, B over d2/d3), exact integer formulas of Pools.tla (fees in percent: DecScale = 100).
   Actions: deposits of any shape, single-asset deposits (as the composition swap-half ; deposit),
   withdrawals, swaps in both directions, routed swaps d1->d2->d3 and back, a route revisiting pool A,
   donations, feature toggles. Bounded by MaxOps operations per behaviour.

   Checked: custody (C01), LP accounting and value per LP (C02), x*y never decreases and round trips
   never profit (C03), conservation and fee routing (C04), single-asset deposit residue (C14),
   feature switches (C17). *)
EXTENDS Integers, FiniteSets, FiniteSetsExt, Sequences, TLC, Json
CONSTANTS MaxOps, SwapAmts, BurnAmts, MinLiqM,
          Scale,      \* 1 in the exhaustive configurations; 1000 when behaviours are generated for replay on the real
                      \* contracts (MC_Pool_sim.cfg), whose minimum liquidity is 1000
          Protect     \* TRUE for replay: routes and single-asset deposits stay clear of the 50 % price-impact cap, which
                      \* the real contract enforces with an 18-digit price the integer model does not carry
DepAmts == {<<4 * Scale, 9 * Scale>>, <<10 * Scale, 10 * Scale>>, <<7 * Scale, 3 * Scale>>}
FeeA == <<1, 2, 1>>    \* pool A: protocol 1%, swap 2%, burn 1%
FeeB == <<0, 0, 0>>    \* pool B: no fees

IAdd(a, b) == a + b
ISub(a, b) == IF a >= b THEN a - b ELSE 0
IMul(a, b) == a * b
IDiv(a, b) == a \div b
ILe(a, b) == a <= b
INat(n) == n
P == INSTANCE Pools WITH Add <- IAdd, Sub <- ISub, Mul <- IMul, Div <- IDiv, Le <- ILe, N <- INat, DecScale <- 100

Base == {"d1", "d2", "d3"}
PoolIds == {"A", "B"}
Assets(q) == IF q = "A" THEN <<"d1", "d2">> ELSE <<"d2", "d3">>
Lp(q) == IF q = "A" THEN "lpA" ELSE "lpB"
Denoms == Base \cup {"lpA", "lpB"}
Users == {"t", "l"}
Accts == Users \cup {"pm", "fc"}
Fee(q) == IF q = "A" THEN FeeA ELSE FeeB      \* [protocol, swap, burn] in percent
Start == 60 * Scale

VARIABLES ops, bank, burned, pools, last,
          trace      \* history of operations with the state each one leaves (hidden by VIEW; printed for replay)
vars == <<ops, bank, burned, pools, last, trace>>
View == <<ops, bank, burned, pools>>

Init == /\ ops = 0
        /\ bank = [a \in Accts |-> [d \in Denoms |-> IF a \in Users /\ d \in Base THEN Start ELSE 0]]
        /\ burned = [d \in Denoms |-> 0]
        /\ pools = [q \in PoolIds |-> [res |-> <<0, 0>>, supply |-> 0, sw |-> TRUE, dep |-> TRUE, wd |-> TRUE]]
        /\ last = [op |-> "init"]
        /\ trace = <<>>

Move(b, from, to, d, x) == [b EXCEPT ![from][d] = @ - x, ![to][d] = @ + x]
Mint(b, to, d, x) == [b EXCEPT ![to][d] = @ + x]

(* ---------------------------------------------------------------- effects (functions of the state) *)
(* swap dx of asset index o of pool q: returns the record of amounts, or ok = FALSE *)
SwapCalc(pl, q, o, dx) ==
  LET a == 3 - o
      gross == IF pl.res[o] + dx = 0 THEN 0 ELSE P!CpGross(pl.res[o], pl.res[a], dx)
      f == Fee(q)
      pr == P!FeeOf(f[1], gross)
      sf == P!FeeOf(f[2], gross)
      bf == P!FeeOf(f[3], gross)
  IN [ok |-> pl.sw /\ pl.res[o] > 0 /\ pl.res[a] > 0 /\ dx > 0, gross |-> gross, ret |-> gross - pr - sf - bf,
      protocol |-> pr, swapfee |-> sf, burn |-> bf, a |-> a]
(* state after the swap; the trader `from` pays dx, `to` receives the net output *)
SwapEffect(S, q, o, dx, from, to) ==
  LET pl == S.pools[q]  c == SwapCalc(pl, q, o, dx)
      od == Assets(q)[o]  ad == Assets(q)[c.a]
      b1 == Move(S.bank, from, "pm", od, dx)
      b2 == Move(b1, "pm", to, ad, c.ret)
      b3 == Move(b2, "pm", "fc", ad, c.protocol)
      b4 == [b3 EXCEPT !["pm"][ad] = @ - c.burn]
  IN [bank |-> b4, burned |-> [S.burned EXCEPT ![ad] = @ + c.burn],
      pools |-> [S.pools EXCEPT ![q].res = [pl.res EXCEPT ![o] = @ + dx, ![c.a] = @ - (c.ret + c.protocol + c.burn)]]]
(* floor(sqrt(v)) by bisection (the replay configuration reaches 10^8) *)
RECURSIVE IsqrtB(_, _, _)
IsqrtB(v, lo, hi) == IF lo >= hi THEN lo
                     ELSE LET mid == (lo + hi + 1) \div 2 IN IF mid * mid <= v THEN IsqrtB(v, mid, hi) ELSE IsqrtB(v, lo, mid - 1)
Isqrt(v, r) == IsqrtB(v, 0, IF v < 46340 THEN v ELSE 46340)
MintCalc(pl, dep) ==
  IF pl.supply = 0 THEN Isqrt(dep[1] * dep[2], 0) - MinLiqM
  ELSE P!Min(P!CpShare(dep[1], pl.supply, pl.res[1]), P!CpShare(dep[2], pl.supply, pl.res[2]))
DepositEffect(S, q, dep, from, to) ==
  LET pl == S.pools[q]
      m == MintCalc(pl, dep)
      first == pl.supply = 0
      b1 == Move(Move(S.bank, from, "pm", Assets(q)[1], dep[1]), from, "pm", Assets(q)[2], dep[2])
      b2 == IF first THEN Mint(b1, "pm", Lp(q), MinLiqM) ELSE b1
      b3 == Mint(b2, to, Lp(q), m)
  IN [bank |-> b3, burned |-> S.burned,
      pools |-> [S.pools EXCEPT ![q].res = <<pl.res[1] + dep[1], pl.res[2] + dep[2]>>, ![q].supply = @ + m + (IF first THEN MinLiqM ELSE 0)]]
Cur == [bank |-> bank, burned |-> burned, pools |-> pools]
(* what a replay compares with the real contracts: reserves, supply and switches of both pools, and the change of every
   user's and the fee collector's balances since the start *)
Summary(S) ==
  [pools |-> [q \in PoolIds |-> [r1 |-> S.pools[q].res[1], r2 |-> S.pools[q].res[2], supply |-> S.pools[q].supply,
                                  sw |-> S.pools[q].sw, dep |-> S.pools[q].dep, wd |-> S.pools[q].wd]],
   bank |-> [a \in Users \cup {"fc"} |-> [d \in Denoms |-> S.bank[a][d] - (IF a \in Users /\ d \in Base THEN Start ELSE 0)]]]
Adopt(S, lab) == /\ bank' = S.bank /\ burned' = S.burned /\ pools' = S.pools /\ last' = lab
                 /\ trace' = Append(trace, lab @@ [post |-> Summary(S)])
Calm(res, dx) == Protect => 4 * dx <= res        \* an offer of at most a quarter of the reserve loses well under 50 %

(* ---------------------------------------------------------------- actions *)
Deposit(u, q, dep) ==
  /\ pools[q].dep /\ dep[1] > 0 /\ dep[2] > 0
  /\ bank[u][Assets(q)[1]] >= dep[1] /\ bank[u][Assets(q)[2]] >= dep[2]
  /\ MintCalc(pools[q], dep) > 0
  /\ Adopt(DepositEffect(Cur, q, dep, u, u), [op |-> "deposit", q |-> q, u |-> u, a1 |-> dep[1], a2 |-> dep[2]])
Withdraw(u, q, b) ==
  LET pl == pools[q]
      p1 == P!WithdrawFloor(pl.res[1], b, pl.supply)
      p2 == P!WithdrawFloor(pl.res[2], b, pl.supply)
      b1 == [bank EXCEPT ![u][Lp(q)] = @ - b]
      b2 == Move(Move(b1, "pm", u, Assets(q)[1], p1), "pm", u, Assets(q)[2], p2)
  IN /\ pl.wd /\ b > 0 /\ bank[u][Lp(q)] >= b /\ (p1 > 0 \/ p2 > 0)
     /\ Adopt([bank |-> b2, burned |-> burned, pools |-> [pools EXCEPT ![q].res = <<pl.res[1] - p1, pl.res[2] - p2>>, ![q].supply = @ - b]],
              [op |-> "withdraw", q |-> q, u |-> u, b |-> b])
Swap(u, q, o, dx) ==
  /\ SwapCalc(pools[q], q, o, dx).ok /\ bank[u][Assets(q)[o]] >= dx
  /\ Adopt(SwapEffect(Cur, q, o, dx, u, u), [op |-> "swap", q |-> q, o |-> o, u |-> u, dx |-> dx])
(* route of two hops: (q1, o1) then (q2, o2); the intermediate output stays in the contract *)
Route(u, q1, o1, q2, o2, dx) ==
  LET c1 == SwapCalc(pools[q1], q1, o1, dx)
      S1 == SwapEffect(Cur, q1, o1, dx, u, "pm")
      c2 == SwapCalc(S1.pools[q2], q2, o2, c1.ret)
      S2 == SwapEffect(S1, q2, o2, c1.ret, "pm", u)
  IN /\ c1.ok /\ bank[u][Assets(q1)[o1]] >= dx /\ Assets(q1)[c1.a] = Assets(q2)[o2]
     /\ c2.ok
     /\ Calm(pools[q1].res[o1], dx) /\ Calm(S1.pools[q2].res[o2], c1.ret)
     /\ Adopt(S2, [op |-> "route", q |-> q1, q2 |-> q2, u |-> u, o1 |-> o1, o2 |-> o2, dx |-> dx])
(* single-asset deposit: swap floor(amt/2), then deposit that half and the proceeds; the odd unit stays *)
Single(u, q, o, amt) ==
  LET half == amt \div 2
      c == SwapCalc(pools[q], q, o, half)
      S1 == SwapEffect(Cur, q, o, half, u, "pm")
      S1b == [S1 EXCEPT !.bank = Move(@, u, "pm", Assets(q)[o], amt - half)]      \* the user sent the whole amount
      dep == IF o = 1 THEN <<half, c.ret>> ELSE <<c.ret, half>>
      S2 == DepositEffect(S1b, q, dep, "pm", u)
  IN /\ pools[q].dep /\ pools[q].supply > 0 /\ c.ok /\ c.ret > 0 /\ bank[u][Assets(q)[o]] >= amt
     /\ MintCalc(S1.pools[q], dep) > 0
     /\ Calm(pools[q].res[o], half)
     /\ Adopt(S2, [op |-> "single", q |-> q, odd |-> amt - 2 * half, d |-> Assets(q)[o], u |-> u, o |-> o, amt |-> amt])
Donate(u, d, x) == bank[u][d] >= x /\ Adopt([bank |-> Move(bank, u, "pm", d, x), burned |-> burned, pools |-> pools], [op |-> "donate", d |-> d, x |-> x])
Toggle(q, k) ==
  Adopt([bank |-> bank, burned |-> burned,
         pools |-> [pools EXCEPT ![q] = IF k = 1 THEN [@ EXCEPT !.sw = ~@] ELSE IF k = 2 THEN [@ EXCEPT !.dep = ~@] ELSE [@ EXCEPT !.wd = ~@]]],
        [op |-> "toggle", q |-> q, k |-> k])

Op == \/ \E u \in Users, q \in PoolIds, dep \in DepAmts : Deposit(u, q, dep)
      \/ \E u \in Users, q \in PoolIds : \E b \in BurnAmts \cup {bank[u][Lp(q)]} : Withdraw(u, q, b)
      \/ \E u \in Users, q \in PoolIds, o \in {1, 2}, dx \in SwapAmts : Swap(u, q, o, dx)
      \/ \E u \in Users, dx \in SwapAmts : \/ Route(u, "A", 1, "B", 1, dx) \/ Route(u, "B", 2, "A", 2, dx)
                                           \/ Route(u, "A", 1, "A", 2, dx)      \* revisits pool A: a round trip
      \/ \E u \in Users, q \in PoolIds, o \in {1, 2}, amt \in SwapAmts : Single(u, q, o, amt)
      \/ \E d \in Base, x \in {1, 5 * Scale} : Donate("l", d, x)
      \/ \E q \in PoolIds, k \in 1..3 : Toggle(q, k)
Next == ops < MaxOps /\ ops' = ops + 1 /\ Op
Spec == Init /\ [][Next]_vars

(* ---------------------------------------------------------------- properties *)
Reserved(d) == FoldSet(LAMBDA q, acc : acc + (IF Assets(q)[1] = d THEN pools[q].res[1] ELSE 0) + (IF Assets(q)[2] = d THEN pools[q].res[2] ELSE 0), 0, PoolIds)
C01_Backed == \A d \in Base : bank["pm"][d] >= Reserved(d)
C01_LpHeldIsLockedMinimum == \A q \in PoolIds : bank["pm"][Lp(q)] = (IF pools[q].supply > 0 THEN MinLiqM ELSE 0)
Excess(d) == bank["pm"][d] - Reserved(d)
C01_ExcessOnlyFromDonationsOrOddUnit ==
  [][\A d \in Base : Excess(d)' = Excess(d) + (IF last'.op = "donate" /\ last'.d = d THEN last'.x ELSE 0)
                                            + (IF last'.op = "single" /\ last'.d = d THEN last'.odd ELSE 0)]_vars
C02_SupplyFloor == \A q \in PoolIds : pools[q].supply > 0 => pools[q].supply >= MinLiqM
C02_SupplyIsSumOfHoldings == \A q \in PoolIds : pools[q].supply = FoldSet(LAMBDA a, acc : acc + bank[a][Lp(q)], 0, Accts)
C02_LpOnlyByLiquidityOps == [][\A q \in PoolIds : pools'[q].supply # pools[q].supply => last'.op \in {"deposit", "withdraw", "single"}]_vars
C02_ValuePerLpNeverDecreases ==
  [][\A q \in PoolIds : (pools[q].supply > 0 /\ pools'[q].supply > 0) =>
        P!CpValuePerLpNonDecreasing(pools[q].res[1], pools[q].res[2], pools[q].supply, pools'[q].res[1], pools'[q].res[2], pools'[q].supply)]_vars
C03_ProductNeverDecreasesBySwaps ==
  [][last'.op \in {"swap", "route"} => \A q \in PoolIds : pools'[q].res[1] * pools'[q].res[2] >= pools[q].res[1] * pools[q].res[2]]_vars
(* a round trip through pool A (d1 -> d2 -> d1) never returns more d1 than it took *)
C03_RoundTripNoProfit ==
  [][(last'.op = "route" /\ last'.q = "A" /\ last'.q2 = "A") => \A u \in Users : bank'[u]["d1"] <= bank[u]["d1"]]_vars
C04_Conservation == \A d \in Base : FoldSet(LAMBDA a, acc : acc + bank[a][d], 0, Accts) + burned[d] = Start * Cardinality(Users)
C04_NoNegative == \A a \in Accts, d \in Denoms : bank[a][d] >= 0
C17_DisabledSwapsNeverMoveReserves ==
  [][\A q \in PoolIds : (~pools[q].sw /\ last'.op \in {"swap", "route", "single"}) => (last'.op = "toggle" \/ pools'[q].res = pools[q].res)]_vars
C17_DisabledDepositsNeverMint ==
  [][\A q \in PoolIds : (~pools[q].dep /\ pools'[q].supply > pools[q].supply) => FALSE]_vars
C17_DisabledWithdrawalsNeverBurn ==
  [][\A q \in PoolIds : (~pools[q].wd /\ pools'[q].supply < pools[q].supply) => FALSE]_vars
(* ---------------------------------------------------------------- behaviours for replay (MC_Pool_sim.cfg) *)
PrintReplay == ops = MaxOps => PrintT(<<"REPLAY", ToJson(trace)>>)
=============================================================================
