----------------------------- MODULE Trace_Pool -----------------------------
(* Judges traces recorded from the real pool manager (harness drivers `pool`, `stable`) against
   Pools.tla instantiated with BigNat arithmetic. st is the projected state observed after the previous
   event; every comparison between what the specification expects and what was observed is a named
   guard owned by the property it serves (DESIGN 2.5, Appendix C). *)
EXTENDS Integers, Sequences, FiniteSets, FiniteSetsExt, TLC, Json, IOUtils, TraceLib
BN == INSTANCE BigNat
BAdd(a, b) == BN!Add(a, b)
BSub(a, b) == BN!Sub(a, b)
BMul(a, b) == BN!Mul(a, b)
BDiv(a, b) == BN!Div(a, b)
BLe(a, b) == BN!Le(a, b)
BLt(a, b) == BN!Lt(a, b)
BNat(n) == BN!FromNat(n)
E9 == BNat(1000000000)
Dec18 == BMul(E9, E9)
P == INSTANCE Pools WITH Add <- BAdd, Sub <- BSub, Mul <- BMul, Div <- BDiv, Le <- BLe, N <- BNat, DecScale <- Dec18
Z == <<>>
One == BNat(1)
Two == BNat(2)

Rec == ndJsonDeserialize(IOEnv.TRACE)
VARIABLES l, cnt, st, broken
vars == <<l, cnt, st, broken>>

(* ------------------------------------------------------------------ helpers *)
BSum(S, f(_)) == FoldSet(LAMBDA x, acc : BAdd(f(x), acc), Z, S)
Pools(s) == s.pools
Idx(p, d) == CHOOSE i \in DOMAIN p.adenoms : p.adenoms[i] = d
HasDenom(p, d) == \E i \in DOMAIN p.adenoms : p.adenoms[i] = d
NAssets(p) == Len(p.adenoms)
MaxDec(p) == CHOOSE m \in {p.dec[i] : i \in DOMAIN p.dec} : \A i \in DOMAIN p.dec : p.dec[i] <= m
MinDec(p) == CHOOSE m \in {p.dec[i] : i \in DOMAIN p.dec} : \A i \in DOMAIN p.dec : p.dec[i] >= m
MinLiq(p) == IF p.kind = "cp" THEN BNat(1000) ELSE BMul(BNat(1000), P!Pow10(MaxDec(p) - MinDec(p)))
Funded(p) == p.supply # Z
Ann(p) == BMul(p.amp, BNat(NAssets(p)))
(* balances normalised to the pool's largest number of decimals, times an extra scale K *)
Norm(p, res, K) == [i \in DOMAIN res |-> BMul(BMul(res[i], P!Pow10(MaxDec(p) - p.dec[i])), K)]
K6 == BNat(1000000)
UnitScaled(p, i, K) == BMul(P!Pow10(MaxDec(p) - p.dec[i]), K)   \* one smallest unit of asset i, scaled
AllPositive(res) == \A i \in DOMAIN res : res[i] # Z

RECURSIVE ApplyT(_, _)
ApplyT(bal, T) ==
  IF T = <<>> THEN bal
  ELSE LET t == Head(T)
           b1 == IF t.from \in DOMAIN bal THEN [bal EXCEPT ![t.from][t.d] = BSub(@, t.a)] ELSE bal
           b2 == IF t.to \in DOMAIN b1 THEN [b1 EXCEPT ![t.to][t.d] = BAdd(@, t.a)] ELSE b1
       IN ApplyT(b2, Tail(T))
RECURSIVE ApplyS(_, _)   \* supplies: mint = from "none", burn = to "none"
ApplyS(sup, T) ==
  IF T = <<>> THEN sup
  ELSE LET t == Head(T)
           s1 == IF t.from = "none" THEN [sup EXCEPT ![t.d] = BAdd(@, t.a)] ELSE sup
           s2 == IF t.to = "none" THEN [s1 EXCEPT ![t.d] = BSub(@, t.a)] ELSE s1
       IN ApplyS(s2, Tail(T))
Tr(from, to, d, a) == IF a = Z THEN <<>> ELSE <<[from |-> from, to |-> to, d |-> d, a |-> a]>>
FundsT(e, to) == [i \in DOMAIN e.funds |-> [from |-> e.sender, to |-> to, d |-> e.funds[i].d, a |-> e.funds[i].a]]
FundAmt(e, d) == BSum({i \in DOMAIN e.funds : e.funds[i].d = d}, LAMBDA i : e.funds[i].a)
FundDenoms(e) == {e.funds[i].d : i \in DOMAIN e.funds}
(* balances / supplies agree on every denom known before the event; denoms created by it start at zero *)
SameBal(pb, xb) == \A a \in DOMAIN xb : \A d \in DOMAIN pb[a] : pb[a][d] = (IF d \in DOMAIN xb[a] THEN xb[a][d] ELSE Z)
SameSup(ps, xs) == \A d \in DOMAIN ps : ps[d] = (IF d \in DOMAIN xs THEN xs[d] ELSE Z)
MoneyMoves(s, p, T) == SameBal(p.bal, ApplyT(s.bal, T)) /\ SameSup(p.supply, ApplyS(s.supply, T))
Unchanged(s, p) == p.bal = s.bal /\ p.supply = s.supply /\ p.pools = s.pools /\ p.fm.pos = s.fm.pos /\ p.pmcfg = s.pmcfg
OtherPoolsUnchanged(s, p, ids) == /\ DOMAIN Pools(p) = DOMAIN Pools(s)
                                  /\ \A q \in DOMAIN Pools(s) \ ids : Pools(p)[q] = Pools(s)[q]
Recv(e) == IF e.receiver = "none" THEN e.sender ELSE e.receiver

(* LP weights seen from the pool manager's side (C10): locking LP through a deposit credits the weight to the
   position owner and to the total in equal measure, and accounts without open positions carry no weight *)
HistOf(s, a, lp) == IF a \in DOMAIN s.fm.hist /\ lp \in DOMAIN s.fm.hist[a] THEN s.fm.hist[a][lp] ELSE <<>>
LatestW(s, a, lp) == LET h == HistOf(s, a, lp) IN IF h = <<>> THEN Z ELSE h[Len(h)].w
WeightCreditedToOwner(s, p, who, lp) ==
  LET dOwner == BSub(LatestW(p, who, lp), LatestW(s, who, lp))
      dTotal == BSub(LatestW(p, "fm", lp), LatestW(s, "fm", lp))
  IN dOwner # Z /\ dOwner = dTotal
     /\ \A a \in DOMAIN p.fm.hist : (a # who /\ a # "fm") => HistOf(p, a, lp) = HistOf(s, a, lp)
(* a user's weight is the weight of the user's open positions (FarmCurve); every top-up may round by one unit *)
CV == INSTANCE FarmCurve WITH Add <- BAdd, Mul <- BMul, Div <- BDiv, Le <- BLe, N <- BNat
Near(x, y, k) == BLe(x, BAdd(y, k)) /\ BLe(y, BAdd(x, k))
OpenWeight(s, a, lp) == BSum({q \in DOMAIN s.fm.pos : s.fm.pos[q].owner = a /\ s.fm.pos[q].lp = lp /\ s.fm.pos[q].open},
                             LAMBDA q : CV!CurveWeight(s.fm.pos[q].amt, s.fm.pos[q].dur))
WeightIsThatOfOpenPositions(s, k) ==
  \A a \in DOMAIN s.fm.hist : a # "fm" => \A lp \in DOMAIN s.fm.hist[a] : Near(LatestW(s, a, lp), OpenWeight(s, a, lp), k)
OpenLpsOf(s, a) == {s.fm.pos[q].lp : q \in {r \in DOMAIN s.fm.pos : s.fm.pos[r].owner = a /\ s.fm.pos[r].open}}
NoWeightWithoutPosition(s) ==
  \A a \in DOMAIN s.fm.hist : a # "fm" => \A lp \in DOMAIN s.fm.hist[a] : (lp \notin OpenLpsOf(s, a)) => s.fm.hist[a][lp] = <<>>

(* ------------------------------------------------------------------ state invariants, every event *)
ReservedOf(s, d) ==
  BSum({<<q, i>> \in UNION {{<<q, i>> : i \in DOMAIN Pools(s)[q].adenoms} : q \in DOMAIN Pools(s)} : Pools(s)[q].adenoms[i] = d},
       LAMBDA qi : Pools(s)[qi[1]].res[qi[2]])
LockedLp(s, d) == BSum({q \in DOMAIN Pools(s) : Pools(s)[q].lp = d /\ Funded(Pools(s)[q])}, LAMBDA q : MinLiq(Pools(s)[q]))
Backed(s) == \A d \in DOMAIN s.supply : BLe(BAdd(ReservedOf(s, d), LockedLp(s, d)), s.bal["pm"][d])
Excess(s, d) == BSub(s.bal["pm"][d], BAdd(ReservedOf(s, d), LockedLp(s, d)))
(* what an event may add to the excess of denom d *)
AllowedExcessGain(e, d) ==
  IF e.ev = "donate" THEN FundAmt(e, d)
  ELSE IF e.ev = "pm_provide" /\ e.ok /\ e.single /\ Len(e.funds) = 1 /\ e.funds[1].d = d
       THEN BSub(e.funds[1].a, BMul(BDiv(e.funds[1].a, Two), Two))
       ELSE Z
Immutable(s, p) ==
  \A q \in DOMAIN Pools(s) : /\ q \in DOMAIN Pools(p)
                            /\ LET a == Pools(s)[q]  b == Pools(p)[q]
                               IN a.kind = b.kind /\ a.amp = b.amp /\ a.denoms = b.denoms /\ a.adenoms = b.adenoms
                                  /\ a.dec = b.dec /\ a.fee = b.fee /\ a.lp = b.lp
LpDenomsUnique(s) == \A q, r \in DOMAIN Pools(s) : q # r => Pools(s)[q].lp # Pools(s)[r].lp
SupplyFloor(s) == \A q \in DOMAIN Pools(s) : Funded(Pools(s)[q]) => BLe(MinLiq(Pools(s)[q]), Pools(s)[q].supply)
LiquidityEvent(e) == e.ev = "pm_provide" \/ e.ev = "pm_withdraw"
Invariants(s, e, p) ==
  [ C01_backed |-> Must(Backed(p)),
    C01_excess_only_from_donations_or_odd_unit |-> Must(\A d \in DOMAIN s.supply : d \in DOMAIN p.supply /\ Excess(p, d) = BAdd(Excess(s, d), AllowedExcessGain(e, d))),
    C01_lp_held_is_locked_minimum |-> Must(\A q \in DOMAIN Pools(p) : p.bal["pm"][Pools(p)[q].lp] = (IF Funded(Pools(p)[q]) THEN MinLiq(Pools(p)[q]) ELSE Z)),
    C02_supply_floor |-> Must(SupplyFloor(p)),
    C02_lp_supply_only_by_liquidity_ops |-> G(~LiquidityEvent(e), \A q \in DOMAIN Pools(s) : Pools(p)[q].supply = Pools(s)[q].supply),
    C16_immutable |-> Must(Immutable(s, p)),
    C16_lp_denoms_unique |-> Must(LpDenomsUnique(p)),
    C10_no_weight_without_position |-> Must(NoWeightWithoutPosition(p)),
    C10_weight_is_that_of_open_positions |-> Must(WeightIsThatOfOpenPositions(p, BNat(200))),
    C05_farm_manager_holds_locked_lp |-> Must(\A d \in DOMAIN p.bal["fm"] :
                                               BLe(BSum({q \in DOMAIN p.fm.pos : p.fm.pos[q].lp = d}, LAMBDA q : p.fm.pos[q].amt), p.bal["fm"][d])),
    C14_no_buffer_left |-> Must(~p.pm_buffer) ]

(* ------------------------------------------------------------------ swaps (C03 C04 C12 C13 C17 C19) *)
Tol(ms) == P!Min(IF ms.set THEN ms.v ELSE BDiv(Dec18, BNat(100)), BDiv(Dec18, Two))
OneMinus(t) == BSub(Dec18, t)
(* one executed swap step on pool pl: offer dx of index o for index a with results r = [ret, swap, protocol, burn, extra] *)
Gross(r) == BAdd(BAdd(BAdd(BAdd(r.ret, r.swap), r.protocol), r.burn), r.extra)
ResAfterSwap(pl, o, a, dx, r) == [pl.res EXCEPT ![o] = BAdd(@, dx), ![a] = BSub(@, BAdd(BAdd(r.ret, r.protocol), r.burn))]
FeesOK(pl, r) ==
  /\ P!FeeFloorOK(r.protocol, pl.fee.protocol, Gross(r))
  /\ P!FeeFloorOK(r.swap, pl.fee.swap, Gross(r))
  /\ P!FeeFloorOK(r.burn, pl.fee.burn, Gross(r))
  /\ r.extra = P!ExtraFeeOf(pl.fee.extra, Gross(r))
InvariantOK(pl, res1) ==
  IF pl.kind = "cp" THEN P!CpInvariantNonDecreasing(pl.res[1], pl.res[2], res1[1], res1[2])
  ELSE IF ~AllPositive(pl.res) \/ ~AllPositive(res1) THEN TRUE
  ELSE LET d0 == P!RootFloor(Ann(pl), Norm(pl, pl.res, K6))
       IN P!DBelowRoot(Ann(pl), Norm(pl, res1, K6), d0)
(* recorded finding F7: stableswap output rounding favours the trader by a few output units (at most 3 in the quick traces,
   6 in 1 400 swaps of the thorough tier, on reserves of 10^20 units and on 0-decimals assets).
   Trigger and residual: the invariant would not decrease had the pool kept eight more ask units. *)
RoundingWithin(pl, res1, a, k) ==
  pl.kind = "ss" /\ AllPositive(pl.res) /\ AllPositive(res1) /\ InvariantOK(pl, [res1 EXCEPT ![a] = BAdd(@, BNat(k))])
RoundingOnly(pl, res1, a) == RoundingWithin(pl, res1, a, 8)
(* recorded finding F11: the swap path's invariant D is only converged to 10^-12 tokens (10^6 units of an 18-digit
   fixed point), so on pools whose largest precision is 18 decimals the invariant can additionally move by that much.
   Trigger and residual: the invariant would not decrease had the pool kept 3 ask units plus 2 * 10^6 units of the
   pool's largest precision. *)
ConvergenceOnly(pl, res1, a) ==
  pl.kind = "ss" /\ AllPositive(pl.res) /\ AllPositive(res1)
  /\ LET extra == BAdd(BNat(8), BAdd(BDiv(BNat(2000000), P!Pow10(MaxDec(pl) - pl.dec[a])), One))
     IN InvariantOK(pl, [res1 EXCEPT ![a] = BAdd(@, extra)])
(* recorded finding F13: far outside the supported range (normalised reserves skewed by more than 10^5 : 1) the invariant D
   loses precision on both paths and the operations are not refused. Trigger: that skew; residual: the invariant moves by
   less than 10^-8 of itself (swap path) / the D used to mint is within 10^-8 relative of the exact root (mint path). *)
SkewedBy(pl, res, k) ==
  LET xs == Norm(pl, res, One) IN \E i, j \in DOMAIN xs : BLt(BMul(xs[j], BNat(k)), xs[i])
Skewed(pl, res) == SkewedBy(pl, res, 100000)
WithinRelSwap(pl, res1) ==
  pl.kind = "ss" /\ AllPositive(pl.res) /\ AllPositive(res1)
  /\ LET d0 == P!RootFloor(Ann(pl), Norm(pl, pl.res, K6)) IN P!DBelowRoot(Ann(pl), Norm(pl, res1, K6), BSub(d0, BDiv(d0, BNat(100000000))))
F7(pl, res1, a) == IF RoundingWithin(pl, res1, a, 3) THEN "F7" ELSE IF MaxDec(pl) >= 12 /\ ConvergenceOnly(pl, res1, a) THEN "F11"
                   ELSE IF RoundingOnly(pl, res1, a) THEN "F7"
                   ELSE IF Skewed(pl, pl.res) /\ WithinRelSwap(pl, res1) THEN "F13" ELSE ""
(* C19: the gross output against the exact solution of the invariant, tolerance = 2 output units plus the
   value of 2 offered units (taken at the larger of the 1:1 peg and the average rate of this trade) *)
QuoteTolScaled(pl, o, a, dx, gross) ==
  LET unitA == UnitScaled(pl, a, K6)
      peg == BAdd(BDiv(P!Pow10(pl.dec[a]), P!Pow10(pl.dec[o])), One)        \* ask units per offer unit at 1:1, rounded up
      avg == BAdd(BDiv(gross, dx), One)
  IN BMul(BAdd(Two, BMul(Two, P!Max(peg, avg))), unitA)
QuoteNearExact(pl, o, a, dx, gross) ==
  LET xs0 == Norm(pl, pl.res, K6)
      d0 == P!RootFloor(Ann(pl), xs0)
  IN P!QuoteBracketOK(Ann(pl), xs0, d0, o, a, BMul(dx, UnitScaled(pl, o, K6)), BMul(gross, UnitScaled(pl, a, K6)), QuoteTolScaled(pl, o, a, dx, gross))
(* C13 without belief price: loss against the pre-trade price within tol. price as a fraction pn/pd of raw units *)
LossWithin(net, dx, pn, pd, tol, slackUnits) == P!LossWithin(net, dx, pn, pd, tol, slackUnits)
LossAtLeast(net, dx, pn, pd, tol, slackUnits) == P!LossAtLeast(net, dx, pn, pd, tol, slackUnits)
PegNum(pl, o, a) == P!Pow10(pl.dec[a])
PegDen(pl, o, a) == P!Pow10(pl.dec[o])
MargNum(pl, o, a) == LET xs == Norm(pl, pl.res, One) IN BMul(P!MarginalNum(Ann(pl), xs, P!RootFloor(Ann(pl), xs), o, a), PegNum(pl, o, a))
MargDen(pl, o, a) == LET xs == Norm(pl, pl.res, One) IN BMul(P!MarginalDen(Ann(pl), xs, P!RootFloor(Ann(pl), xs), o, a), PegDen(pl, o, a))
Slack(net) == BAdd(Two, BDiv(net, BNat(1000000000)))      \* two units + 1e-9 relative, for the fixed point truncations
(* constant product: the pre-trade pool price is the 18-digit fixed point ratio of the reserves (as the API exposes prices),
   the expected return is floor(offer * price); the trade is within tolerance iff (expected - net) / expected <= tol,
   compared as 18-digit fixed point numbers (one ulp allowed). No unit slack: a one-unit excess on a dust trade is a violation. *)
CpExpected(pl, o, a, dx) == BDiv(BMul(dx, BDiv(BMul(pl.res[a], Dec18), pl.res[o])), Dec18)
CpWithin(pl, o, a, dx, net, tol) ==
  LET ex == CpExpected(pl, o, a, dx) IN BLt(BMul(BSub(ex, net), Dec18), BMul(BAdd(tol, One), ex)) \/ BLe(ex, net)
CpBeyond(pl, o, a, dx, net, tol) ==
  LET ex == CpExpected(pl, o, a, dx) IN BLt(BMul(BSub(tol, One), ex), BMul(BSub(ex, net), Dec18))
SwapAllowedNoBelief(pl, o, a, dx, net, tol) ==
  IF pl.kind = "cp" THEN CpWithin(pl, o, a, dx, net, tol)
  ELSE \/ LossWithin(net, dx, PegNum(pl, o, a), PegDen(pl, o, a), tol, Slack(net))
       \/ (AllPositive(pl.res) /\ LossWithin(net, dx, MargNum(pl, o, a), MargDen(pl, o, a), tol, Slack(net)))
SwapRejectedRightlyNoBelief(pl, o, a, dx, net, tol) ==
  IF pl.kind = "cp" THEN CpBeyond(pl, o, a, dx, net, tol)
  ELSE \/ LossAtLeast(net, dx, PegNum(pl, o, a), PegDen(pl, o, a), tol, Slack(net))
       \/ (AllPositive(pl.res) /\ LossAtLeast(net, dx, MargNum(pl, o, a), MargDen(pl, o, a), tol, Slack(net)))
Expected(dx, belief) == BDiv(BMul(dx, Dec18), belief)
BeliefSlack(x) == BAdd(Two, BDiv(x, BNat(1000000000)))
BeliefAllowed(dx, belief, net, tol) ==
  LET ex == Expected(dx, belief) IN BLe(BMul(BSub(ex, BeliefSlack(ex)), OneMinus(tol)), BMul(BAdd(net, One), Dec18))
BeliefRejectedRightly(dx, belief, net, tol) ==
  LET ex == Expected(dx, belief) IN BLe(BMul(net, Dec18), BMul(BAdd(ex, BeliefSlack(ex)), OneMinus(tol)))

JudgeSwap(s, e, p) ==
  LET known == e.pool \in DOMAIN Pools(s)
      pl == Pools(s)[e.pool]
      one == Len(e.funds) = 1
      od == e.funds[1].d
      dx == e.funds[1].a
      wellformed == known /\ one /\ HasDenom(pl, od) /\ HasDenom(pl, e.ask) /\ od # e.ask
      o == Idx(pl, od)
      a == Idx(pl, e.ask)
      r == e.attrs
      good == e.ok /\ wellformed
      res1 == ResAfterSwap(pl, o, a, dx, r)
      T == FundsT(e, "pm") \o Tr("pm", Recv(e), e.ask, r.ret) \o Tr("pm", s.pmcfg.fc, e.ask, r.protocol) \o Tr("pm", "none", e.ask, r.burn)
      q == e.quote
      tol == Tol(e.max_slip)
      ss == pl.kind = "ss" /\ AllPositive(pl.res)
  IN [ C04_wellformed_only     |-> G(e.ok, wellformed),
       C17_swap_gated          |-> G(good, pl.sw),
       C17_swap_blocked_only_by_its_switch |-> G(~e.ok /\ e.err = "disabled" /\ known, ~pl.sw),
       C04_offer_added_ask_reduced |-> G(good, Pools(p)[e.pool] = [pl EXCEPT !.res = res1] /\ OtherPoolsUnchanged(s, p, {e.pool})),
       C04_fee_floors          |-> G(good, FeesOK(pl, r)),
       C04_destinations        |-> G(good, MoneyMoves(s, p, T) /\ p.fm.pos = s.fm.pos),
       C03_invariant_non_decreasing |-> GK(good, InvariantOK(pl, res1), F7(pl, res1, a)),
       C12_quote_available     |-> G(good, q.ok),
       C12_quote_equals_execution |-> G(good /\ q.ok, q.ret = r.ret /\ q.swap = r.swap /\ q.protocol = r.protocol /\ q.burn = r.burn /\ q.extra = r.extra),
       \* what arrives is what was quoted (the receiver is neither the pool manager nor the fee collector of the moment)
       C12_received_equals_quote |-> G(good /\ q.ok /\ Recv(e) \notin {"pm", s.pmcfg.fc} /\ Recv(e) \in DOMAIN s.bal,
                                       BSub(p.bal[Recv(e)][e.ask], s.bal[Recv(e)][e.ask]) = q.ret),
       C13_swap_within_tolerance |-> G(good /\ ~e.belief.set /\ dx # Z, SwapAllowedNoBelief(pl, o, a, dx, r.ret, tol)),
       C13_swap_rejected_only_beyond_tolerance |-> G(~e.ok /\ e.err = "slippage" /\ wellformed /\ ~e.belief.set /\ q.ok /\ dx # Z,
                                                     SwapRejectedRightlyNoBelief(pl, o, a, dx, q.ret, tol)),
       C13_belief_within_tolerance |-> G(good /\ e.belief.set /\ e.belief.v # Z, BeliefAllowed(dx, e.belief.v, r.ret, tol)),
       C13_belief_rejected_only_beyond_tolerance |-> G(~e.ok /\ e.err = "slippage" /\ wellformed /\ e.belief.set /\ e.belief.v # Z /\ q.ok,
                                                       BeliefRejectedRightly(dx, e.belief.v, q.ret, tol)),
       \* inside the supported range (reserves skewed by at most 1000 : 1, decimals up to 18, amplification up to 10^6, an offer
       \* of at least one unit and at most the reserve of the offered asset) a quote exists
       C19_quote_available_in_supported_range |-> G(wellformed /\ ss /\ dx # Z /\ BLe(dx, pl.res[o]) /\ MaxDec(pl) <= 18
                                                    /\ BLe(pl.amp, BNat(1000000)) /\ ~SkewedBy(pl, pl.res, 1000), q.ok),
       C19_quote_near_exact    |-> G(q.ok /\ wellformed /\ ss /\ dx # Z, QuoteNearExact(pl, o, a, dx, Gross(q))),
       C19_refuses_without_valid_invariant |-> G(wellformed /\ pl.kind = "ss" /\ ~AllPositive(pl.res) /\ dx # Z,
                                                 (~q.ok \/ Gross(q) = Z) /\ (~e.ok \/ r.ret = Z)),   \* nothing is priced off a degenerate invariant
       \* "exceeding": an output equal to the reserve (a fee-less pool drained by an oversized offer) is within one unit of the exact answer
       C19_output_below_reserve |-> G(q.ok /\ wellformed /\ pl.kind = "ss", BLe(BAdd(BAdd(q.ret, q.protocol), q.burn), pl.res[a])),
       C20_pool_rejected_noop  |-> G(~e.ok, Unchanged(s, p)) ]

(* ------------------------------------------------------------------ routed swaps *)
(* fold over the hops; acc = [pools, inv, gate, chain, next (expected input of the next hop), T (fee transfers)] *)
RECURSIVE RouteFold(_, _, _, _, _)
RouteFold(s, e, k, acc, fc) ==
  IF k > Len(e.hops) THEN acc
  ELSE LET h == e.hops[k]
           ph == e.per_hop[k]
           pl == acc.pools[h.pool]
           o == Idx(pl, h.in)
           a == Idx(pl, h.out)
           r == [ret |-> ph.out, protocol |-> ph.protocol_fee, burn |-> ph.burn_fee, swap |-> ph.swap_fee]
           res1 == [pl.res EXCEPT ![o] = BAdd(@, ph.in), ![a] = BSub(@, BAdd(BAdd(r.ret, r.protocol), r.burn))]
           noExtra == pl.fee.extra = <<>>
           gross == BAdd(BAdd(BAdd(r.ret, r.swap), r.protocol), r.burn)
           feeok == ~noExtra \/ (/\ P!FeeFloorOK(r.protocol, pl.fee.protocol, gross)
                                 /\ P!FeeFloorOK(r.swap, pl.fee.swap, gross)
                                 /\ P!FeeFloorOK(r.burn, pl.fee.burn, gross))
       IN RouteFold(s, e, k + 1,
                    [pools |-> [acc.pools EXCEPT ![h.pool].res = res1],
                     inv |-> acc.inv /\ InvariantOK(pl, res1),
                     invK |-> acc.invK /\ (InvariantOK(pl, res1) \/ RoundingOnly(pl, res1, a)),
                     invK2 |-> acc.invK2 /\ (InvariantOK(pl, res1) \/ F7(pl, res1, a) # ""),
                     gate |-> acc.gate /\ pl.sw,
                     fees |-> acc.fees /\ feeok,
                     chain |-> acc.chain /\ ph.in = acc.next,
                     \* every stableswap hop is priced off the exact invariant of the reserves it meets (C19), not of an earlier snapshot
                     near |-> acc.near /\ (pl.kind # "ss" \/ ~noExtra \/ ~AllPositive(pl.res) \/ ph.in = Z \/ o = a \/ QuoteNearExact(pl, o, a, ph.in, gross)),
                     \* each hop's loss against the price of the reserves it meets stays within the route's tolerance (C13)
                     tolok |-> acc.tolok /\ (~noExtra \/ ph.in = Z \/ o = a \/ ~AllPositive(pl.res) \/ SwapAllowedNoBelief(pl, o, a, ph.in, ph.out, Tol(e.max_slip))),
                     next |-> ph.out,
                     T |-> acc.T \o Tr("pm", fc, h.out, r.protocol) \o Tr("pm", "none", h.out, r.burn)], fc)
JudgeRoute(s, e, p) ==
  LET n == Len(e.hops)
      wellformed == /\ n > 0 /\ Len(e.funds) = 1
                    /\ \A k \in 1..n : e.hops[k].pool \in DOMAIN Pools(s)
                                       /\ HasDenom(Pools(s)[e.hops[k].pool], e.hops[k].in) /\ HasDenom(Pools(s)[e.hops[k].pool], e.hops[k].out)
                                       /\ e.hops[k].in # e.hops[k].out
                    /\ e.hops[1].in = e.funds[1].d
                    /\ \A k \in 1..(n - 1) : e.hops[k + 1].in = e.hops[k].out
      good == e.ok /\ wellformed /\ Len(e.per_hop) = n
      \* enough structure to follow the reserves, even if a hop names the same denom twice
      followable == /\ e.ok /\ n > 0 /\ Len(e.funds) = 1 /\ Len(e.per_hop) = n
                    /\ \A k \in 1..n : e.hops[k].pool \in DOMAIN Pools(s)
                                       /\ HasDenom(Pools(s)[e.hops[k].pool], e.hops[k].in) /\ HasDenom(Pools(s)[e.hops[k].pool], e.hops[k].out)
      acc == RouteFold(s, e, 1, [pools |-> Pools(s), inv |-> TRUE, invK |-> TRUE, invK2 |-> TRUE, gate |-> TRUE, fees |-> TRUE, chain |-> TRUE, near |-> TRUE, tolok |-> TRUE, next |-> e.funds[1].a, T |-> <<>>], s.pmcfg.fc)
      T == FundsT(e, "pm") \o Tr("pm", Recv(e), e.hops[n].out, e.final) \o acc.T
      simple == \A j, k \in 1..n : j # k => e.hops[j].pool # e.hops[k].pool
  IN [ C04_route_wellformed_only |-> G(e.ok, wellformed /\ Len(e.per_hop) = n),
       C04_route_chain         |-> G(good, acc.chain /\ e.final = acc.next),
       C04_route_reserves      |-> G(good, Pools(p) = acc.pools),
       C04_route_destinations  |-> G(good, MoneyMoves(s, p, T) /\ p.fm.pos = s.fm.pos),
       C04_route_fee_floors    |-> G(good, acc.fees),
       C03_route_invariants_non_decreasing |-> GK(followable, acc.inv, IF acc.invK THEN "F7" ELSE IF acc.invK2 THEN "F11" ELSE ""),
       \* per-hop invariants bound the trader's proceeds only if every hop really offers what the previous hop paid out
       C03_route_hops_offer_the_previous_proceeds |-> G(e.ok /\ n > 0, wellformed /\ Len(e.per_hop) = n /\ acc.chain /\ e.final = acc.next),
       C19_route_hops_near_exact |-> G(good, acc.near),
       C13_route_hops_within_tolerance |-> G(good, acc.tolok),
       C17_route_gated         |-> G(good, acc.gate),
       C17_route_blocked_only_by_a_swap_switch |-> G(~e.ok /\ e.err = "disabled" /\ wellformed, \E k \in 1..n : ~Pools(s)[e.hops[k].pool].sw),
       \* every executed route over pairwise distinct pools, well-formed or not: what was executed is what was quoted
       C12_route_quote_equals_execution |-> G(e.ok /\ n > 0 /\ simple, e.quote.ok /\ e.quote.ret = e.final),
       C13_minimum_receive_enforced |-> G(good /\ e.min_receive.set, BLe(e.min_receive.v, e.final)),
       C13_minimum_receive_rejected_only_when_short |-> G(~e.ok /\ e.err = "min_receive" /\ wellformed /\ simple /\ e.quote.ok /\ e.min_receive.set,
                                                         BLt(e.quote.ret, e.min_receive.v)),
       C20_pool_rejected_noop  |-> G(~e.ok, Unchanged(s, p)) ]

(* ------------------------------------------------------------------ deposits (C02 C13 C14 C17 C19) *)
Deposit(pl, e, i) == FundAmt(e, pl.adenoms[i])
DepositVec(pl, e) == [i \in DOMAIN pl.adenoms |-> Deposit(pl, e, i)]
AddVec(a, b) == [i \in DOMAIN a |-> BAdd(a[i], b[i])]
(* fm position that received locked LP: exactly one position is new or grew *)
PosChanged(s, p) == {q \in DOMAIN p.fm.pos : q \notin DOMAIN s.fm.pos \/ p.fm.pos[q] # s.fm.pos[q]}
LockedFor(s, p, who, lp, amt, dur) ==
  /\ DOMAIN s.fm.pos \subseteq DOMAIN p.fm.pos
  /\ Cardinality(PosChanged(s, p)) = 1
  /\ LET q == CHOOSE x \in PosChanged(s, p) : TRUE
         np == p.fm.pos[q]
     IN /\ np.owner = who /\ np.lp = lp /\ np.open
        /\ IF q \in DOMAIN s.fm.pos THEN np = [s.fm.pos[q] EXCEPT !.amt = BAdd(@, amt)]
           ELSE np.amt = amt /\ np.dur = dur
ValueNonDecreasing(pl, res0, S0, res1, S1) ==
  IF S0 = Z THEN TRUE
  ELSE IF pl.kind = "cp" THEN P!CpValuePerLpNonDecreasing(res0[1], res0[2], S0, res1[1], res1[2], S1)
  ELSE IF ~AllPositive(res0) \/ ~AllPositive(res1) THEN TRUE
  ELSE LET d0 == P!RootFloor(Ann(pl), Norm(pl, res0, One))
           d1 == P!RootFloor(Ann(pl), Norm(pl, res1, One))
       IN BLe(BMul(d0, S1), BMul(BAdd(d1, BNat(3)), S0))       \* D0/S0 <= (D1 + granularity)/S1
MintOK(pl, res0, S0, dep, minted) ==
  LET res1 == AddVec(res0, dep) IN
  IF pl.kind = "cp" THEN
     IF S0 = Z THEN P!IsqrtIs(BAdd(minted, BNat(1000)), BMul(dep[1], dep[2]))
     ELSE \A i \in DOMAIN dep : BLe(minted, P!CpShare(dep[i], S0, res0[i]))
  ELSE IF S0 = Z THEN TRUE                                   \* first stableswap deposit: see C19_D
  ELSE IF ~AllPositive(res0) THEN TRUE
  ELSE LET d0 == P!RootFloor(Ann(pl), Norm(pl, res0, One))
           d1 == P!RootFloor(Ann(pl), Norm(pl, res1, One))
           d0m == BSub(d0, Two)
       IN BLe(BMul(minted, d0m), BMul(S0, BSub(BAdd(d1, BNat(3)), d0m)))
MintExactCp(pl, res0, S0, dep, minted) ==
  pl.kind = "cp" /\ S0 # Z => minted = P!Min(P!CpShare(dep[1], S0, res0[1]), P!CpShare(dep[2], S0, res0[2]))
FirstDWithin(pl, res1, S1, slack) ==     \* the integer D used to mint at the first deposit is the new supply
  LET xs == Norm(pl, res1, One) IN P!DBelowRoot(Ann(pl), xs, BSub(S1, slack)) /\ P!DAboveRoot(Ann(pl), xs, BAdd(S1, slack))
FirstDNearExact(pl, res1, S1) == FirstDWithin(pl, res1, S1, Two)
(* recorded finding F12: the integer Newton iteration of the mint path accumulates truncation error on skewed
   3-4 asset pools; residual: within 2 units + 10^-15 relative of the exact root *)
F12(pl, res1, S1) == IF FirstDWithin(pl, res1, S1, BAdd(Two, BDiv(S1, BMul(E9, BNat(1000000))))) THEN "F12"
                     ELSE IF Skewed(pl, res1) /\ FirstDWithin(pl, res1, S1, BAdd(Two, BDiv(S1, BNat(100000000)))) THEN "F13" ELSE ""
DepositRatioWithin(d, R, t) == P!DepositRatioWithin(d, R, t)
Proportional(d, R) == P!Proportional(d, R)

(* judgement of a (multi-asset) deposit of `dep` into pool state (res0, S0), minting to `target` *)
JudgeDepositCore(s, e, p, pl, res0, S0, dep, preT, preSupplyT) ==
  LET first == S0 = Z
      res1 == AddVec(res0, dep)
      S1 == Pools(p)[e.pool].supply
      locked == IF first THEN MinLiq(pl) ELSE Z
      minted == BSub(BSub(S1, S0), locked)
      lock == e.lock.set
      target == IF lock THEN "fm" ELSE Recv(e)
      T == preT \o Tr("none", "pm", pl.lp, locked) \o Tr("none", target, pl.lp, minted)
  IN [ C02_mint_not_above_contribution |-> Must(MintOK(pl, res0, S0, dep, minted)),
       M_mint_cp_is_min_of_shares |-> Must(MintExactCp(pl, res0, S0, dep, minted)),
       C02_first_deposit_locks_minimum |-> G(first, BLe(BAdd(minted, locked), S1) /\ minted # Z),
       C19_first_deposit_D_near_exact |-> GK(first /\ pl.kind = "ss" /\ AllPositive(res1), FirstDNearExact(pl, res1, S1), F12(pl, res1, S1)),
       C02_value_per_lp_non_decreasing |-> Must(ValueNonDecreasing(pl, res0, S0, res1, S1)),
       C02_deposit_accounting  |-> Must(/\ Pools(p)[e.pool] = [pl EXCEPT !.res = res1, !.supply = S1]
                                        /\ OtherPoolsUnchanged(s, p, {e.pool})
                                        /\ MoneyMoves(s, p, T)),
       C08_lock_only_for_sender |-> G(lock, e.receiver = "none" \/ e.receiver = e.sender),
       C14_lock_only_for_sender |-> G(lock /\ e.single, e.receiver = "none" \/ e.receiver = e.sender),
       C08_locked_lp_goes_to_senders_position |-> G(lock, LockedFor(s, p, e.sender, pl.lp, minted, e.lock.dur)),
       \* authorisation seen from the pool manager: a locked deposit never creates or tops up a position of anybody but the sender
       C15_locked_deposit_touches_only_the_senders_position |-> G(lock, LockedFor(s, p, e.sender, pl.lp, minted, e.lock.dur)),
       C14_single_asset_locks_only_for_sender |-> G(lock /\ e.single, LockedFor(s, p, e.sender, pl.lp, minted, e.lock.dur)),
       C10_locked_lp_weight_credited_to_owner |-> G(lock, WeightCreditedToOwner(s, p, e.sender, pl.lp)),
       C08_unlocked_deposit_touches_no_position |-> G(~lock, p.fm.pos = s.fm.pos /\ p.fm.hist = s.fm.hist) ]

JudgeProvide(s, e, p) ==
  LET known == e.pool \in DOMAIN Pools(s)
      pl == Pools(s)[e.pool]
      wellformed == known /\ e.funds # <<>> /\ \A d \in FundDenoms(e) : HasDenom(pl, d)
      dep == DepositVec(pl, e)
      multi == wellformed /\ Cardinality(FundDenoms(e)) > 1
      good == e.ok /\ multi
      tolSet == e.liq_slip.set
      t == e.liq_slip.v
      funded == AllPositive(pl.res)
  IN [ C02_deposit_wellformed_only |-> G(e.ok, wellformed),
       C17_deposit_gated       |-> G(e.ok /\ known, pl.dep),
       C17_deposit_blocked_only_by_its_switch |-> G(~e.ok /\ e.err = "disabled" /\ known, ~pl.dep),
       C13_deposit_tolerance_above_one_refused |-> G(good /\ tolSet /\ funded, BLe(t, Dec18)),
       C13_deposit_ratio_within_tolerance |-> G(good /\ tolSet /\ funded /\ pl.kind = "cp" /\ BLe(t, Dec18), DepositRatioWithin(dep, pl.res, t)),
       \* recorded finding F5: a stableswap deposit with a tolerance is always refused (trigger: stableswap pool)
       C13_proportional_deposit_accepted |-> GK(~e.ok /\ e.err = "slippage" /\ multi /\ tolSet /\ funded /\ BLe(t, Dec18) /\ AllPositive(dep), ~Proportional(dep, pl.res),
                                                IF pl.kind = "ss" THEN "F5" ELSE ""),
       C20_pool_rejected_noop  |-> G(~e.ok, Unchanged(s, p)) ]
     @@ (IF good THEN JudgeDepositCore(s, e, p, pl, pl.res, pl.supply, dep, FundsT(e, "pm"), <<>>) ELSE NoGuards)

(* single-asset deposit = swap of half, then deposit of the half and the proceeds (C14) *)
JudgeProvideSingle(s, e, p) ==
  LET known == e.pool \in DOMAIN Pools(s)
      pl == Pools(s)[e.pool]
      od == e.funds[1].d
      amt == e.funds[1].a
      wellformed == known /\ Len(e.funds) = 1 /\ HasDenom(pl, od)
      two == NAssets(pl) = 2
      o == Idx(pl, od)
      a == 3 - o
      ad == pl.adenoms[a]
      half == BDiv(amt, Two)
      q == e.half_quote
      r == [ret |-> q.ret, swap |-> q.swap, protocol |-> q.protocol, burn |-> q.burn, extra |-> q.extra]
      good == e.ok /\ wellformed /\ two /\ q.ok
      resMid == ResAfterSwap(pl, o, a, half, r)
      plMid == [pl EXCEPT !.res = resMid]
      dep == [i \in 1..2 |-> IF i = o THEN half ELSE q.ret]
      \* money: the whole amount enters; fees leave; LP is minted (inside the core)
      preT == FundsT(e, "pm") \o Tr("pm", s.pmcfg.fc, ad, q.protocol) \o Tr("pm", "none", ad, q.burn)
  IN [ C14_single_wellformed_only |-> G(e.ok, wellformed),
       C14_only_two_asset_funded_pools |-> G(e.ok /\ wellformed, two /\ AllPositive(pl.res)),
       C17_single_needs_swaps_and_deposits |-> G(e.ok /\ known, pl.sw /\ pl.dep),
       C17_single_blocked_only_by_swap_or_deposit_switch |-> G(~e.ok /\ e.err = "disabled" /\ known, ~pl.sw \/ ~pl.dep),
       C14_internal_swap_is_the_quoted_swap |-> G(e.ok /\ wellformed /\ two, q.ok),
       C04_single_fee_floors   |-> G(good, FeesOK(pl, r)),
       C03_single_invariant_non_decreasing |-> GK(good, InvariantOK(pl, resMid), F7(pl, resMid, a)),
       C13_single_swap_within_tolerance |-> G(good /\ half # Z, SwapAllowedNoBelief(pl, o, a, half, q.ret, Tol(e.swap_slip))),
       C13_single_deposit_ratio_within_tolerance |-> G(good /\ e.liq_slip.set /\ pl.kind = "cp" /\ BLe(e.liq_slip.v, Dec18) /\ AllPositive(resMid),
                                                       DepositRatioWithin(dep, resMid, e.liq_slip.v)),
       \* "exactly the effect of swapping half and then depositing": accepted only if both steps of that sequence would be
       \* where the scenario's author knows the two-step sequence works (recorded as expect_ok), the one-step form works too
       C14_available_where_the_two_steps_are |-> G("expect_ok" \in DOMAIN e /\ e.expect_ok, e.ok),
       C14_accepted_only_if_the_two_steps_would_be |-> G(good /\ half # Z /\ pl.kind = "cp" /\ AllPositive(resMid),
                                                         /\ pl.sw /\ pl.dep
                                                         /\ SwapAllowedNoBelief(pl, o, a, half, q.ret, Tol(e.swap_slip))
                                                         /\ ((e.liq_slip.set /\ BLe(e.liq_slip.v, Dec18)) => DepositRatioWithin(dep, resMid, e.liq_slip.v))),
       C20_pool_rejected_noop  |-> G(~e.ok, Unchanged(s, p)) ]
     @@ (IF good THEN LET core == JudgeDepositCore(s, e, p, plMid, resMid, pl.supply, dep, preT, <<>>)
                      IN core @@ [ C14_equals_swap_half_then_deposit |->
                                     Must(core.C02_deposit_accounting.v /\ core.M_mint_cp_is_min_of_shares.v /\ core.C02_mint_not_above_contribution.v) ]
         ELSE NoGuards)

(* ------------------------------------------------------------------ withdrawals (C02 C17) *)
JudgeWithdraw(s, e, p) ==
  LET known == e.pool \in DOMAIN Pools(s)
      pl == Pools(s)[e.pool]
      wellformed == known /\ Len(e.funds) = 1 /\ e.funds[1].d = pl.lp /\ e.funds[1].a # Z
      b == e.funds[1].a
      S == pl.supply
      good == e.ok /\ wellformed
      paid == [i \in DOMAIN pl.res |-> BSub(pl.res[i], Pools(p)[e.pool].res[i])]
      T == FundsT(e, "pm") \o Tr("pm", "none", pl.lp, b)
      RECURSIVE Pay(_)
      Pay(i) == IF i > Len(pl.res) THEN <<>> ELSE Tr("pm", e.sender, pl.adenoms[i], paid[i]) \o Pay(i + 1)
      redeemable == \E i \in DOMAIN pl.res : P!WithdrawFloor(pl.res[i], b, S) # Z
  IN [ C02_withdraw_wellformed_only |-> G(e.ok, wellformed),
       C17_withdraw_gated      |-> G(good, pl.wd),
       C17_withdraw_blocked_only_by_its_switch |-> G(~e.ok /\ e.err = "disabled" /\ known, ~pl.wd),
       C02_withdraw_pays_pro_rata |-> G(good, \A i \in DOMAIN pl.res : P!WithdrawShareOK(paid[i], pl.res[i], b, S)),
       C02_withdraw_accounting |-> G(good, /\ Pools(p)[e.pool] = [pl EXCEPT !.res = [i \in DOMAIN pl.res |-> BSub(pl.res[i], paid[i])], !.supply = BSub(S, b)]
                                           /\ OtherPoolsUnchanged(s, p, {e.pool})
                                           /\ MoneyMoves(s, p, T \o Pay(1)) /\ p.fm.pos = s.fm.pos),
       C02_value_per_lp_non_decreasing |-> G(good /\ BSub(S, b) # Z, ValueNonDecreasing(pl, pl.res, S, Pools(p)[e.pool].res, BSub(S, b))),
       C02_redeemable          |-> G(wellformed /\ pl.wd /\ BLe(b, s.bal[e.sender][pl.lp]) /\ BLe(b, S) /\ redeemable, e.ok),
       C20_pool_rejected_noop  |-> G(~e.ok, Unchanged(s, p)) ]

(* ------------------------------------------------------------------ pool creation (C16 C17) *)
SeqSet(q) == {q[i] : i \in DOMAIN q}
JudgeCreatePool(s, e, p) ==
  LET n == Len(e.denoms)
      cfee == s.pmcfg.fee
      need(d) == BAdd(IF cfee.denom = d THEN cfee.amt ELSE Z, BSum({i \in DOMAIN e.tf : e.tf[i].d = d}, LAMBDA i : e.tf[i].a))
      feeDenoms == {d \in ({cfee.denom} \cup {e.tf[i].d : i \in DOMAIN e.tf}) : need(d) # Z}
      shapeOK == /\ n >= 2 /\ Len(e.dec) = n /\ Cardinality(SeqSet(e.denoms)) = n
                 /\ (e.kind = "cp" => n = 2) /\ (e.kind = "ss" => e.amp # Z /\ n <= 4)
                 /\ P!FeesValid(e.fee)
      fundsOK == /\ {d \in FundDenoms(e) : FundAmt(e, d) # Z} = feeDenoms
                 /\ \A d \in feeDenoms : FundAmt(e, d) = need(d)
      new == DOMAIN Pools(p) \ DOMAIN Pools(s)
      nid == CHOOSE x \in new : TRUE
      RECURSIVE Burns(_)
      Burns(i) == IF i > Len(e.tf) THEN <<>> ELSE Tr("pm", "none", e.tf[i].d, e.tf[i].a) \o Burns(i + 1)
      T == FundsT(e, "pm") \o Tr("pm", s.pmcfg.fc, cfee.denom, cfee.amt) \o Burns(1)
      good == e.ok /\ Cardinality(new) = 1
      expectedId == IF e.id = "none" THEN "none" ELSE "o." \o e.id
  IN [ C16_shape               |-> G(e.ok, shapeOK),
       C16_exact_fees_attached |-> G(e.ok, fundsOK),
       C16_fee_forwarded_nothing_kept |-> G(e.ok, MoneyMoves(s, p, T) /\ \A d \in DOMAIN s.bal["pm"] : p.bal["pm"][d] = s.bal["pm"][d]),
       C16_one_new_pool        |-> G(e.ok, Cardinality(new) = 1 /\ DOMAIN Pools(s) \subseteq DOMAIN Pools(p)),
       C16_identifier          |-> G(good /\ e.id # "none", nid = expectedId),
       \* well-formed: letters, digits, '/' and '.', and short enough for the LP subdenom "o.<id>.LP" to fit 44 characters
       C16_identifier_wellformed |-> G(e.ok /\ e.id # "none", e.id_chars_ok /\ e.id_len + 5 <= 44),
       C16_new_pool_recorded   |-> G(good, LET np == Pools(p)[nid] IN
                                           /\ np.kind = e.kind /\ np.amp = e.amp /\ np.denoms = e.denoms /\ np.adenoms = e.denoms /\ np.dec = e.dec
                                           /\ np.fee = e.fee /\ np.supply = Z /\ \A i \in DOMAIN np.res : np.res[i] = Z
                                           /\ np.lp \notin {Pools(s)[q].lp : q \in DOMAIN Pools(s)}),
       C17_new_pool_starts_enabled |-> G(good, Pools(p)[nid].sw /\ Pools(p)[nid].dep /\ Pools(p)[nid].wd),
       C16_existing_pools_untouched |-> G(e.ok, \A q \in DOMAIN Pools(s) : Pools(p)[q] = Pools(s)[q]),
       C20_pool_rejected_noop  |-> G(~e.ok, Unchanged(s, p)) ]

(* ------------------------------------------------------------------ config / toggles (C15 C17) *)
Flag(old, v) == IF v = -1 THEN old ELSE v = 1
JudgeUpdateConfig(s, e, p) ==
  LET tg == e.toggle
      known == tg.set /\ tg.pool \in DOMAIN Pools(s)
  IN [ C15_pm_config_only_owner |-> G(e.ok, e.sender = e.owner /\ e.funds = <<>>),
       C17_toggle_changes_only_named_flags |-> G(e.ok /\ tg.set, /\ known
                                                                 /\ Pools(p)[tg.pool] = [Pools(s)[tg.pool] EXCEPT !.sw = Flag(@, tg.sw), !.dep = Flag(@, tg.dep), !.wd = Flag(@, tg.wd)]
                                                                 /\ OtherPoolsUnchanged(s, p, {tg.pool})),
       C16_config_update_keeps_pools |-> G(e.ok /\ ~tg.set, Pools(p) = Pools(s)),
       \* the creation fee that later creations owe is the coin the owner set, denom included
       C16_creation_fee_is_what_the_owner_set |-> G(e.ok /\ "fee" \in DOMAIN e /\ e.fee.set, p.pmcfg.fee.denom = e.fee.denom /\ p.pmcfg.fee.amt = e.fee.amt),
       C15_pm_config_moves_no_tokens |-> G(e.ok, p.bal = s.bal /\ p.supply = s.supply /\ p.fm.pos = s.fm.pos),
       C20_pool_rejected_noop  |-> G(~e.ok, Unchanged(s, p)) ]

JudgeDonate(s, e, p) ==
  [ C01_donation_changes_no_reserves |-> Must(Pools(p) = Pools(s) /\ (e.ok => MoneyMoves(s, p, FundsT(e, "pm")))) ]
JudgeAdvance(s, e, p) == [ C20_time_changes_nothing |-> Must(Unchanged(s, p)) ]
(* beyond the listed properties (S_): the stableswap reverse quote, fed back into the forward simulation, returns the
   requested amount up to 3 ask units + the value of 2 offered units at the peg + 10^-6 relative *)
RsimSlack(pl, e) ==
  LET o == Idx(pl, e.offer_denom)  a == Idx(pl, e.ask.d)
  IN BAdd(BAdd(BNat(3), BMul(Two, BAdd(BDiv(P!Pow10(pl.dec[a]), P!Pow10(pl.dec[o])), One))), BDiv(e.ask.a, BNat(1000000)))
JudgeRsim(s, e) ==
  [ C12_reverse_quote_sufficient_cp |-> G(e.kind = "cp" /\ e.ok /\ e.fwd_plus1.ok, BLe(e.ask.a, e.fwd_plus1.ret)),
    S_reverse_quote_roundtrip_ss |-> G(e.kind = "ss" /\ e.ok /\ e.fwd.ok /\ e.pool \in DOMAIN Pools(s),
                                       LET sl == RsimSlack(Pools(s)[e.pool], e)
                                       IN BLe(e.ask.a, BAdd(e.fwd.ret, sl)) /\ BLe(e.fwd.ret, BAdd(e.ask.a, sl))) ]
(* beyond the listed properties (S_): a reverse route quote is the chain of single reverse quotes asked from the last hop back -
   each hop is asked for what the next one needs, the first hop's offer is the answer, the route is refused exactly when a hop
   is (or there is none), and each fee list holds, per denom paid out, the sum of the hops' fees in that denom (zero sums left out).
   The harness records what it asked and what it got; the linkage is checked here. *)
FeeListIs(lst, ch, f) ==    \* one entry per denom paid out with a non-zero fee, carrying the sum over the hops paying that denom
  LET ds == {ch[k].out : k \in {k \in DOMAIN ch : ch[k][f] # Z}} IN
  /\ {lst[i].d : i \in DOMAIN lst} = ds /\ Len(lst) = Cardinality(ds)
  /\ \A i \in DOMAIN lst : lst[i].a = BSum({k \in DOMAIN ch : ch[k].out = lst[i].d}, LAMBDA k : ch[k][f])
JudgeRroute(e) ==
  LET ch == e.chain  n == Len(ch)
      linked == /\ n > 0 => ch[1].ask = e.ask
                /\ \A k \in 2..n : ch[k - 1].ok /\ ch[k].ask = ch[k - 1].offer
      whole == e.n > 0 /\ n = e.n /\ \A k \in 1..n : ch[k].ok
  IN [ M_reverse_chain_linked |-> Must(linked),
       S_reverse_route_refused_iff_a_hop_is |-> G(linked, e.ok = whole),
       S_reverse_route_is_the_chain_of_reverse_quotes |-> G(linked /\ e.ok /\ whole, e.offer = ch[n].offer),
       S_reverse_route_fee_lists_are_the_hops_fees |-> G(linked /\ e.ok /\ whole,
            /\ e.lists_sorted     \* strictly ascending by denom, as observed on the response (TLC does not order strings)
            /\ FeeListIs(e.swap_fees, ch, "swap") /\ FeeListIs(e.protocol_fees, ch, "protocol") /\ FeeListIs(e.burn_fees, ch, "burn")
            /\ FeeListIs(e.extra_fees, ch, "extra") /\ FeeListIs(e.slippage_amounts, ch, "slip")) ]
(* beyond the listed properties (S_): on a simple route the fee lists of the forward route quote are the fees the executed hops
   charged, summed per denom paid out, zero sums left out, strictly ascending by denom *)
RouteQuoteFees(e) ==
  LET n == Len(e.hops)
      simple == Cardinality({e.hops[k].pool : k \in 1..n}) = n
      full == /\ e.ok /\ n > 0 /\ simple /\ e.quote.ok /\ Len(e.per_hop) = n /\ "swap_fees" \in DOMAIN e.quote
              /\ \A k \in 1..n : {"swap_fee", "protocol_fee", "burn_fee"} \subseteq DOMAIN e.per_hop[k]
      ch == [k \in 1..n |-> [out |-> e.hops[k].out, swap |-> e.per_hop[k].swap_fee, protocol |-> e.per_hop[k].protocol_fee, burn |-> e.per_hop[k].burn_fee]]
  IN [ S_route_quote_fee_lists_are_the_executed_fees |-> G(full, /\ e.quote.lists_sorted /\ FeeListIs(e.quote.swap_fees, ch, "swap")
                                                                  /\ FeeListIs(e.quote.protocol_fees, ch, "protocol") /\ FeeListIs(e.quote.burn_fees, ch, "burn")) ]
(* C16 seen through the AssetDecimals query: the decimals of a pool's denom are the ones recorded at creation, at the position of
   that denom in the pool's asset list; a denom the pool does not hold, or an unknown pool, is refused *)
DIdx(pl, d) == CHOOSE i \in DOMAIN pl.denoms : pl.denoms[i] = d
JudgeDecimals(s, e) ==
  LET known(it) == it.pool \in DOMAIN Pools(s) /\ it.denom \in SeqSet(Pools(s)[it.pool].denoms)
  IN [ C16_decimals_query_reports_the_recorded_decimals |-> G(\E k \in DOMAIN e.items : known(e.items[k]),
            \A k \in DOMAIN e.items : known(e.items[k]) =>
                LET it == e.items[k]  pl == Pools(s)[it.pool] IN it.ok /\ it.echo /\ it.dec = pl.dec[DIdx(pl, it.denom)]),
       S_decimals_query_refuses_foreign_denoms |-> Must(\A k \in DOMAIN e.items : ~known(e.items[k]) => ~e.items[k].ok) ]
(* paginated queries return every item exactly once, in order, at most `limit` per page *)
JudgePages(e) ==
  [ S_pagination_complete_and_ordered |-> Must(e.paged = e.all /\ \A i \in DOMAIN e.page_sizes : e.page_sizes[i] <= e.limit) ]

(* ------------------------------------------------------------------ the trace *)
HasPost(e) == e.ev \notin {"q_rsim", "q_pages", "q_rroute", "q_decimals", "driver_abort"}
Judge(s, e) ==
  CASE e.ev = "reset" -> NoGuards
    [] e.ev = "driver_abort" -> [ M_driver_completed |-> Must(FALSE) ]
    [] e.ev = "q_rsim" -> JudgeRsim(s, e)
    [] e.ev = "q_pages" -> JudgePages(e)
    [] e.ev = "q_rroute" -> JudgeRroute(e)
    [] e.ev = "q_decimals" -> JudgeDecimals(s, e)
    [] e.ev = "advance" -> JudgeAdvance(s, e, e.post)
    \* the v1.2.0 -> v1.3.0 upgrade of a deployment with legacy records: no token moves, every reserve keeps its denom and amount
    [] e.ev = "pm_upgrade" -> [ M_upgrade_of_legacy_records_succeeds |-> Must(e.ok),
                                S_upgrade_moves_nothing |-> G(e.ok, /\ e.post.bal = s.bal /\ e.post.supply = s.supply
                                                                   /\ DOMAIN Pools(e.post) = DOMAIN Pools(s)
                                                                   /\ \A q \in DOMAIN Pools(s) : LET a == Pools(s)[q] b == Pools(e.post)[q] IN
                                                                        /\ b.denoms = a.denoms /\ b.dec = a.dec /\ b.supply = a.supply /\ b.fee = a.fee
                                                                        /\ \A d \in SeqSet(a.adenoms) : \E i \in DOMAIN a.adenoms, j \in DOMAIN b.adenoms :
                                                                               a.adenoms[i] = d /\ b.adenoms[j] = d /\ a.res[i] = b.res[j]) ]
    [] e.ev = "fm_direct" -> [ C10_direct_close_only_touches_the_position |->
                                Must(Pools(e.post) = Pools(s) /\ e.post.bal = s.bal /\ e.post.supply = s.supply) ]   \* a close in the farm manager moves no money
    [] e.ev = "donate" -> JudgeDonate(s, e, e.post)
    [] e.ev = "pm_swap" -> JudgeSwap(s, e, e.post)
    [] e.ev = "pm_route" -> JudgeRoute(s, e, e.post) @@ RouteQuoteFees(e)
    [] e.ev = "pm_provide" -> IF e.single THEN JudgeProvideSingle(s, e, e.post) ELSE JudgeProvide(s, e, e.post)
    [] e.ev = "pm_withdraw" -> JudgeWithdraw(s, e, e.post)
    [] e.ev = "pm_create_pool" -> JudgeCreatePool(s, e, e.post)
    [] e.ev = "pm_update_config" -> JudgeUpdateConfig(s, e, e.post)

(* ------------------------------------------------------------------ replayed TLC behaviours (MC_Pool, MC_Pool_sim.cfg) *)
(* the event carries the state MC_Pool predicts after the step: reserves, supply and switches of pools A and B, and the
   balance changes of both users and the fee collector since the start. Equality is exact: the model's formulas
   (Pools.tla with integers) are the contract's formulas. *)
ModelPoolAgrees(p, q, m) ==
  LET id == "o." \o q IN
  /\ id \in DOMAIN Pools(p)
  /\ Pools(p)[id].res = <<BNat(m.r1), BNat(m.r2)>> /\ Pools(p)[id].supply = BNat(m.supply)
  /\ Pools(p)[id].sw = m.sw /\ Pools(p)[id].dep = m.dep /\ Pools(p)[id].wd = m.wd
ModelGuards(e, p) ==
  IF "model" \in DOMAIN e /\ e.model.set
  THEN LET m == e.model.post IN
       [ M_model_step_accepted |-> Must(e.ok),
         C04_model_reserves_and_supply_agree |-> G(e.ok, \A q \in DOMAIN m.pools : ModelPoolAgrees(p, q, m.pools[q])),
         C02_model_lp_balances_agree |-> G(e.ok, \A a \in DOMAIN m.bank : m.bank[a].lpA = e.model.delta[a].lpA /\ m.bank[a].lpB = e.model.delta[a].lpB),
         C04_model_balances_agree |-> G(e.ok, \A a \in DOMAIN m.bank : \A d \in {"d1", "d2", "d3"} : m.bank[a][d] = e.model.delta[a][d]) ]
  ELSE NoGuards

(* a pool record whose reserves, denoms and decimals no longer line up (C16: a pool's assets never change) cannot be judged
   by the formulas above; it is flagged once and the rest of that scenario is skipped *)
ShapeOK(p) == \A q \in DOMAIN Pools(p) : LET pl == Pools(p)[q] IN
                 Len(pl.res) = Len(pl.adenoms) /\ Len(pl.res) = Len(pl.dec) /\ Len(pl.res) = Len(pl.denoms)
Malformed(e) == e.ev # "reset" /\ HasPost(e) /\ ~ShapeOK(e.post)
Init == l = 1 /\ cnt = NoGuards /\ st = [none |-> TRUE] /\ broken = FALSE
Step == /\ l <= Len(Rec)
        /\ LET e == Rec[l]
               gs == IF broken /\ e.ev # "reset" THEN NoGuards
                     ELSE IF Malformed(e) THEN [ C16_pool_records_keep_their_shape |-> Must(FALSE) ]
                     ELSE Judge(st, e) @@ (IF e.ev \in {"reset", "pm_upgrade"} \/ ~HasPost(e) THEN NoGuards ELSE Invariants(st, e, e.post) @@ ModelGuards(e, e.post))
           IN /\ Report(e.i, e.sc, gs)
              /\ cnt' = Count(cnt, gs)
              /\ st' = IF HasPost(e) THEN e.post ELSE st
              /\ broken' = IF e.ev = "reset" THEN FALSE ELSE (broken \/ Malformed(e))
        /\ l' = l + 1
Finish == l = Len(Rec) + 1 /\ PrintCounts(cnt) /\ l' = l + 1 /\ UNCHANGED <<cnt, st, broken>>
Spec == Init /\ [][Step \/ Finish]_vars
Accepted == /\ PrintT(<<"CONSUMED", TLCGet("stats").diameter - 2, Len(Rec)>>)
            /\ TLCGet("stats").diameter - 2 = Len(Rec)
=============================================================================
