----------------------------- MODULE FarmCurve -----------------------------
(* The position weight curve of the farm manager as an explicit fixed point computation (18 digits).
   The multiplier interpolates (1 day, 1x), (half a year, 5x), (1 year, 16x):
      dur^2 * 109498841 / K + dur * 249042009202369 / K + 246210981355969 / 246918738317569,
   K = 7791996353100889432894, every quotient rounded down. Only instantiated with BigNat: the
   constants do not fit TLC integers. *)
CONSTANTS Add(_,_), Mul(_,_), Div(_,_), Le(_,_), N(_)
E9 == N(1000000000)
Dec1 == Mul(E9, E9)
KCurve == Add(Mul(N(7791), Dec1), Add(Mul(N(996353100), E9), N(889432894)))
C2 == N(109498841)
C1 == Add(Mul(N(249042), E9), N(9202369))
F1 == Add(Mul(N(246210), E9), N(981355969))
F2 == Add(Mul(N(246918), E9), N(738317569))
CurveMultiplier(dur) ==
  Add(Add(Div(Mul(Mul(Mul(dur, dur), C2), Dec1), KCurve),
          Div(Mul(Mul(dur, C1), Dec1), KCurve)),
      Div(Mul(F1, Dec1), F2))
CurveWeight(amt, dur) ==
  LET w == Div(Mul(amt, CurveMultiplier(dur)), Dec1) IN IF Le(amt, w) THEN w ELSE amt
=============================================================================
