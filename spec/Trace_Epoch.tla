----------------------------- MODULE Trace_Epoch -----------------------------
(* Judges a trace recorded from the real epoch manager (harness driver `epoch`) against Epochs.tla
   instantiated with BigNat arithmetic. One TLC state per trace line. *)
EXTENDS Naturals, Sequences, FiniteSets, TLC, Json, IOUtils, TraceLib
BN == INSTANCE BigNat
BAdd(a, b) == BN!Add(a, b)
BSub(a, b) == BN!Sub(a, b)
BMul(a, b) == BN!Mul(a, b)
BDiv(a, b) == BN!Div(a, b)
BLe(a, b) == BN!Le(a, b)
BNat(n) == BN!FromNat(n)
\* 2^64 - 1 = 18446744073709551615 and floor((2^64 - 1) / 10^9) = 18446744073
U64MaxB == <<1615, 955, 737, 6744, 1844>>
TsMaxB == <<4073, 4674, 184>>
E == INSTANCE Epochs WITH Add <- BAdd, Sub <- BSub, Mul <- BMul, Div <- BDiv, Le <- BLe, N <- BNat,
                          U64Max <- U64MaxB, TsMax <- TsMaxB, MinDuration <- BNat(86400)

Rec == ndJsonDeserialize(IOEnv.TRACE)
VARIABLES l, cnt, gh     \* gh: last successful CurrentEpoch answer of this scenario (ghost)
vars == <<l, cnt, gh>>

Cfg(e) == [genesis |-> e.genesis, duration |-> e.duration]
JudgeCur(e) ==
  LET cfg == Cfg(e)
      r == IF e.ok THEN [ok |-> TRUE, id |-> e.id, start |-> e.start] ELSE [ok |-> FALSE]
      same == gh.set /\ e.ok /\ gh.cfg = cfg
  IN [ C18_before_genesis_fails |-> Must(E!BeforeGenesisFails(cfg, e.now, r)),
       C18_defined_from_genesis |-> Must(E!DefinedFromGenesis(cfg, e.now, r)),
       C18_id_formula           |-> G(e.ok, E!IdFormula(cfg, e.now, r)),
       \* genesis and duration are whole seconds, so is every epoch's start (whatever sub-second part the block time has)
       C18_current_start_is_a_whole_second |-> G(e.ok, e.sub = 0),
       C18_start_formula        |-> G(e.ok, E!StartFormula(cfg, r)),
       C18_partition            |-> G(e.ok, E!Partition(cfg, e.now, r)),
       C18_monotone             |-> G(same /\ BLe(gh.now, e.now), BLe(gh.id, e.id)),
       C18_one_per_duration     |-> G(same /\ e.now = BAdd(gh.now, cfg.duration), e.id = BAdd(gh.id, BNat(1))),
       C18_matches_spec         |-> Must(E!CurrentEpoch(cfg, e.now) = r) ]
JudgeId(e) ==
  LET cfg == Cfg(e)
      r == IF e.ok THEN [ok |-> TRUE, id |-> e.rid, start |-> e.start] ELSE [ok |-> FALSE]
  IN [ C18_epoch_start_formula |-> G(e.ok, e.rid = e.id /\ E!StartFormula(cfg, r) /\ e.sub = 0),
       C18_epoch_defined       |-> G(E!Representable(cfg, e.id), e.ok),
       C18_epoch_overflow_refused |-> G(~E!Representable(cfg, e.id), ~e.ok) ]
JudgeUpd(e) ==
  LET c == [genesis |-> e.genesis, duration |-> e.duration]
  IN [ C18_config_valid_only  |-> G(e.ok, E!ConfigValid(e.now, c)),
       C18_config_applied     |-> G(e.ok, e.post = c),
       C15_em_config_owner_only |-> G(e.ok, e.sender = e.owner),
       C20_em_rejected_noop   |-> G(~e.ok, e.post = e.pre) ]
JudgeInst(e) ==
  [ C18_instantiate_valid_only |-> G(e.ok, E!ConfigValid(e.now, [genesis |-> e.genesis, duration |-> e.duration])) ]

Judge(e) == CASE e.ev = "q_epoch" -> JudgeCur(e)
              [] e.ev = "q_epoch_id" -> JudgeId(e)
              [] e.ev = "em_update_config" -> JudgeUpd(e)
              [] e.ev = "em_instantiate" -> JudgeInst(e)
              [] e.ev = "reset" -> NoGuards
              [] e.ev = "driver_abort" -> [ M_driver_completed |-> Must(FALSE) ]

NoGhost == [set |-> FALSE]
Init == l = 1 /\ cnt = NoGuards /\ gh = NoGhost
Step == /\ l <= Len(Rec)
        /\ LET e == Rec[l]  gs == Judge(e) IN
             /\ Report(e.i, e.sc, gs)
             /\ cnt' = Count(cnt, gs)
             /\ gh' = CASE e.ev = "reset" -> NoGhost
                        [] e.ev = "q_epoch" /\ e.ok -> [set |-> TRUE, cfg |-> Cfg(e), now |-> e.now, id |-> e.id]
                        [] OTHER -> gh
        /\ l' = l + 1
Finish == l = Len(Rec) + 1 /\ PrintCounts(cnt) /\ l' = l + 1 /\ UNCHANGED <<cnt, gh>>
Spec == Init /\ [][Step \/ Finish]_vars
\* every line consumed (+ initial state + Finish)
Accepted == /\ PrintT(<<"CONSUMED", TLCGet("stats").diameter - 2, Len(Rec)>>)
            /\ TLCGet("stats").diameter - 2 = Len(Rec)
=============================================================================
