------------------------------ MODULE MC_Stable ------------------------------
(* The stableswap oracle of Pools.tla, examined by TLC on a grid of two-asset pools (C03, C19).
   Trace_Pool decides "the quote is within tol of the exact solution" with multiplication-only sign tests of the
   invariant polynomial at floor(D* ) (QuoteBracketOK). This model checks the oracle itself on small integers, where
   everything can be enumerated: RootFloor is the floor of the unique root, the set of accepted outputs is a
   non-empty interval, it narrows to the tolerance when the balances are scaled (what Trace_Pool does with 10^6),
   it never accepts an output that lowers the invariant by a whole unit, and swapping the accepted output straight
   back never returns more than was put in.
   There is no behaviour: every grid point is reached by unfolding one coordinate per step. *)
EXTENDS Integers, Sequences, FiniteSets, TLC
CONSTANTS MaxR, Amps, Scale

(* BigNat arithmetic (the instantiation Trace_Pool uses): D^3 * 4xy overflows TLC's 32-bit integers already at Scale 100 *)
BN == INSTANCE BigNat
BNat(n) == BN!FromNat(n)
P == INSTANCE Pools WITH Add <- BN!Add, Sub <- BN!Sub, Mul <- BN!Mul, Div <- BN!Div, Le <- BN!Le, N <- BNat, DecScale <- BNat(100)
Ge(a, b) == BN!Le(b, a)

VARIABLES x, y, amp, dx, ph
vars == <<x, y, amp, dx, ph>>
Init == x \in 1..MaxR /\ y = 1 /\ amp = 1 /\ dx = 1 /\ ph = 1
Next == \/ ph = 1 /\ y' \in 1..MaxR /\ ph' = 2 /\ UNCHANGED <<x, amp, dx>>
        \/ ph = 2 /\ amp' \in Amps /\ ph' = 3 /\ UNCHANGED <<x, y, dx>>
        \/ ph = 3 /\ dx' \in 1..(2 * MaxR) /\ ph' = 4 /\ UNCHANGED <<x, y, amp>>
Spec == Init /\ [][Next]_vars
Leaf == ph = 4

Ann == BNat(amp * 2)                 \* the contract's convention: Ann = amp * n
Pair(a, b) == <<BNat(a), BNat(b)>>
Xs == Pair(x, y)
D0 == P!RootFloor(Ann, Xs)
(* the same pool with every amount multiplied by Scale *)
XsK == Pair(x * Scale, y * Scale)
D0K == P!RootFloor(Ann, XsK)
Accepted(t) == {g \in 0..y : P!QuoteBracketOK(Ann, Xs, D0, 1, 2, BNat(dx), BNat(g), BNat(t))}
AcceptedK(t) == {g \in 0..y : P!QuoteBracketOK(Ann, XsK, D0K, 1, 2, BNat(dx * Scale), BNat(g * Scale), BNat(t * Scale))}
Interval(S) == \A a, b, c \in 0..y : (a \in S /\ c \in S /\ a <= b /\ b <= c) => b \in S

(* floor(D* ): the sign test holds at D0 and fails at D0 + 1; D* lies between the geometric and the arithmetic bound *)
C19_RootFloorIsTheFloorOfTheRoot == Leaf =>
  (/\ P!DBelowRoot(Ann, Xs, D0) /\ ~P!DBelowRoot(Ann, Xs, BN!Add(D0, BNat(1)))
   /\ BN!Le(D0, BNat(x + y)) /\ (x = y => D0 = BNat(x + y))
   /\ LET d1 == BN!Add(D0, BNat(1)) IN Ge(BN!Mul(d1, d1), BNat(4 * x * y)))      \* D* >= 2 sqrt(xy)
(* the root grows with the amplification towards the sum and with either balance *)
C19_RootMonotone == Leaf =>
  (/\ Ge(P!RootFloor(BNat(amp * 2 + 2), Xs), D0)
   /\ Ge(P!RootFloor(Ann, Pair(x + 1, y)), D0) /\ Ge(P!RootFloor(Ann, Pair(x, y + 1)), D0))
(* the oracle accepts something, and what it accepts is an interval *)
C19_OracleAcceptsAnInterval == Leaf => (Accepted(1) # {} /\ Interval(Accepted(1)) /\ Interval(Accepted(0)))
(* with scaled balances the window is as narrow as the tolerance: at most 2 tol + 2 outputs wide *)
C19_ScaledOracleIsTight == Leaf => (AcceptedK(1) # {} /\ Interval(AcceptedK(1)) /\ Cardinality(AcceptedK(1)) <= 4
                                    /\ Cardinality(AcceptedK(0)) <= 2)
(* a wider tolerance accepts more, never less *)
C19_OracleMonotoneInTolerance == Leaf => (Accepted(0) \subseteq Accepted(1) /\ Accepted(1) \subseteq Accepted(2))
(* nothing the tight oracle accepts lowers the invariant by a whole unit (C03): D*(after) > D0 - 1 *)
C03_AcceptedOutputKeepsTheInvariant == Leaf =>
  \A g \in AcceptedK(0) : g < y => Ge(P!RootFloor(Ann, Pair((x + dx) * Scale, (y - g) * Scale)), BN!Sub(D0K, BNat(1)))
(* swapping an exactly accepted output straight back returns at most what was put in, plus the one unit of slack the
   floor of D* leaves in each direction *)
C03_RoundTripNeverProfits == Leaf =>
  \A g \in AcceptedK(0) : (g >= 1 /\ g < y) =>
     LET back == Pair((y - g) * Scale, (x + dx) * Scale)              \* the pool seen from the other side
         d1 == P!RootFloor(Ann, back)
     IN \A h \in 0..(x + dx) : P!QuoteBracketOK(Ann, back, d1, 1, 2, BNat(g * Scale), BNat(h * Scale), BNat(0)) => h <= dx + 1
(* the output never reaches the reserve while the pool keeps a valid invariant *)
C19_AcceptedOutputBelowReserve == Leaf => \A g \in AcceptedK(0) : g <= y
=============================================================================
