--------------------------------- MODULE Cw ---------------------------------
(* CosmWasm dispatch and rollback semantics, as far as the DEX depends on them (C14, C20).
   A transaction is a tree of nodes. A node is either a leaf (one bank / token-factory dispatch, the
   unit the fault harness can fail) or a contract call with state writes of its own and an ordered list
   of sub-messages. Every sub-message has a reply policy:
      "never"   - failure of the sub-message fails the caller (and so on upwards);
      "success" - as "never", and on success the caller's reply handler runs (node `reply`, may dispatch more);
      "error"   - a failure is caught: the sub-message's own effects are rolled back, the reply handler
                  runs and the caller continues.
   Run returns [ok, eff, ctr]: eff is the set of nodes whose effects are committed if the caller commits. *)
EXTENDS Naturals, Sequences, FiniteSets
CONSTANT Tree     \* node id -> [leaf : BOOLEAN, policy : STRING, kids : Seq(node id), reply : node id or 0]

RECURSIVE Run(_, _, _), RunKids(_, _, _, _, _)
Run(n, ctr, failAt) ==
  IF Tree[n].leaf
  THEN IF ctr + 1 = failAt THEN [ok |-> FALSE, eff |-> {}, ctr |-> ctr + 1] ELSE [ok |-> TRUE, eff |-> {n}, ctr |-> ctr + 1]
  ELSE RunKids(Tree[n].kids, 1, [ok |-> TRUE, eff |-> {n}, ctr |-> ctr], failAt, n)
RunKids(kids, i, acc, failAt, parent) ==
  IF ~acc.ok \/ i > Len(kids) THEN acc
  ELSE LET k == kids[i]
           r == Run(k, acc.ctr, failAt)
           pol == Tree[k].policy
       IN IF r.ok
          THEN LET a1 == [ok |-> TRUE, eff |-> acc.eff \cup r.eff, ctr |-> r.ctr]
                   a2 == IF pol = "success" /\ Tree[k].reply # 0
                         THEN LET rr == Run(Tree[k].reply, a1.ctr, failAt)
                              IN IF rr.ok THEN [ok |-> TRUE, eff |-> a1.eff \cup rr.eff, ctr |-> rr.ctr] ELSE [ok |-> FALSE, eff |-> {}, ctr |-> rr.ctr]
                         ELSE a1
               IN RunKids(kids, i + 1, a2, failAt, parent)
          ELSE IF pol = "error"
               THEN RunKids(kids, i + 1, [ok |-> TRUE, eff |-> acc.eff, ctr |-> r.ctr], failAt, parent)   \* caught: child's effects dropped
               ELSE [ok |-> FALSE, eff |-> {}, ctr |-> r.ctr]
RECURSIVE Leaves(_)
Leaves(n) == IF Tree[n].leaf THEN 1
             ELSE LET RECURSIVE S(_) S(i) == IF i > Len(Tree[n].kids) THEN 0
                                            ELSE Leaves(Tree[n].kids[i]) + (IF Tree[Tree[n].kids[i]].reply # 0 THEN Leaves(Tree[Tree[n].kids[i]].reply) ELSE 0) + S(i + 1)
                  IN S(1)
=============================================================================
