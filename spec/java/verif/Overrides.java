package verif;
public class Overrides implements tlc2.overrides.ITLCOverrides {
  @SuppressWarnings("rawtypes")
  public Class[] get() { return new Class[] { BigNatImpl.class }; }
}
