package verif;

import java.math.BigInteger;
import tlc2.overrides.TLAPlusOperator;
import tlc2.value.impl.*;

public class BigNatImpl {
  static final BigInteger B = BigInteger.valueOf(10000);

  static BigInteger toBig(Value v) {
    TupleValue t = (TupleValue) v.toTuple();
    BigInteger r = BigInteger.ZERO;
    for (int i = t.elems.length - 1; i >= 0; i--) {
      r = r.multiply(B).add(BigInteger.valueOf(((IntValue) t.elems[i]).val));
    }
    return r;
  }
  static Value fromBig(BigInteger x) {
    java.util.ArrayList<Value> l = new java.util.ArrayList<>();
    while (x.signum() > 0) {
      BigInteger[] qr = x.divideAndRemainder(B);
      l.add(IntValue.gen(qr[1].intValue()));
      x = qr[0];
    }
    return new TupleValue(l.toArray(new Value[0]));
  }
  @TLAPlusOperator(identifier = "Add", module = "BigNat", warn = false)
  public static Value Add(Value a, Value b) { return fromBig(toBig(a).add(toBig(b))); }
  @TLAPlusOperator(identifier = "Mul", module = "BigNat", warn = false)
  public static Value Mul(Value a, Value b) { return fromBig(toBig(a).multiply(toBig(b))); }
  @TLAPlusOperator(identifier = "Sub", module = "BigNat", warn = false)
  public static Value Sub(Value a, Value b) { BigInteger r = toBig(a).subtract(toBig(b)); return fromBig(r.signum() < 0 ? BigInteger.ZERO : r); }
  @TLAPlusOperator(identifier = "Div", module = "BigNat", warn = false)
  public static Value Div(Value a, Value b) { return fromBig(toBig(a).divide(toBig(b))); }
  @TLAPlusOperator(identifier = "Cmp", module = "BigNat", warn = false)
  public static Value Cmp(Value a, Value b) { return IntValue.gen(toBig(a).compareTo(toBig(b))); }
}
