CONSTANTS
  MaxNow = 60
  MaxGenesis = 12
  Durations = {1, 2, 3, 4, 5, 7, 11}
  MinDur = 2
  U64 = 5000
  Ts = 90
SPECIFICATION Spec
VIEW View
INVARIANT C18_Partition
INVARIANT C18_BeforeGenesisFails
INVARIANT C18_DefinedFromGenesis
INVARIANT C18_StartConsistent
INVARIANT C18_ConfigNeverInvalid
INVARIANT C18_ExactlyOnePerDuration
PROPERTY C18_Monotone
PROPERTY C18_StepsByOne
PROPERTY C18_GenesisNeverMovesToPast
CHECK_DEADLOCK FALSE
