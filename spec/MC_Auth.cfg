CONSTANTS
  Contracts = {"pm", "fm", "em", "fc"}
  Roles = {"o", "p", "x", "pmc", "fmc"}
  Proposable = {"p", "x"}
SPECIFICATION Spec
VIEW View
ACTION_CONSTRAINT PrintEdge
PROPERTY C15_OnlyOwnerChangesConfig
PROPERTY C15_OwnershipMovesOnlyByProposeAccept
PROPERTY C15_PendingOnlySetByOwner
PROPERTY C15_NoFundsAccepted
PROPERTY C15_RenouncedIsFinal
PROPERTY C15_RejectedChangesNothing
CHECK_DEADLOCK FALSE
