CONSTANTS
  Users = {a, b}
  MaxT = 6
  EpLen = 2
  Expiry = 1
  FarmIds = {1, 2}
  PosIds = {1, 2}
  MaxConc = 2
  FeeAmt = 1
  FeeDenom = "same"
  RewardDenoms = {"rw", "lp"}
  Amts = {1, 3}
  Durs = {1, 2}
  BasePenalty = 50
  MaxOps = 4
SPECIFICATION Spec
VIEW View
INVARIANT C05_FarmBacked
INVARIANT C05_NoNegativeBalance
INVARIANT C11_Conservation
INVARIANT C11_FarmLimit
INVARIANT C06_ClaimedWithinEmission
PROPERTY C08_OnlyOwnerMoves
PROPERTY C08_CreateForOthersOnlyByPm
PROPERTY C08_LpConserved
PROPERTY C08_WithdrawInFullAfterUnlock
PROPERTY C09_EmergencyAccounted
PROPERTY C11_RefundOnlyToOwner
CHECK_DEADLOCK FALSE
