----------------------------- MODULE MC_AuthObj -----------------------------
(* Complete graph of farm- and position-level authorisation (second half of C15): one farm (owner fo) and one
   position (owner po) x every message x every sender role, in every reachable state. The rules are
   Ownable!ObjOk / ObjAfter; every edge is printed and replayed on the real contracts. *)
EXTENDS Naturals, TLC, Json, Sequences
A == INSTANCE Ownable
VARIABLES ob, olast
vars == <<ob, olast>>
View == ob
Init == ob = [farm |-> TRUE, pos |-> "open"] /\ olast = [m |-> "init", sender |-> "none", ok |-> TRUE]
Send(s, m) == ob' = A!ObjAfter(ob, s, m) /\ olast' = [m |-> m, sender |-> s, ok |-> A!ObjOk(ob, s, m)]
Tick == ob.pos = "closed" /\ ob' = [ob EXCEPT !.pos = "unlocked"] /\ olast' = [m |-> "tick", sender |-> "none", ok |-> TRUE]
Next == Tick \/ \E s \in A!ObjRoles, m \in A!ObjMsgs : Send(s, m)
Spec == Init /\ [][Next]_vars
C15_OnlyOwnerEndsPosition == [][(ob'.pos # ob.pos /\ olast'.m # "tick") => olast'.sender = "po"]_vars
C15_OnlyOwnersCloseFarm == [][ob'.farm # ob.farm => olast'.sender \in {"fo", "o"}]_vars
C15_RejectedChangesNothing == [][~olast'.ok => ob' = ob]_vars
PrintEdge == PrintT(<<"EDGE", ToJson([c |-> "obj", src |-> ob, step |-> olast', dst |-> ob'])>>)
=============================================================================
