------------------------------- MODULE Pools -------------------------------
(* The pool manager's pricing and share rules over an abstract arithmetic (DESIGN 2.2).
   MC_Pool instantiates it with TLC integers, Trace_Pool with BigNat.

   Numeric properties are stated as relations (sign tests, brackets), not as re-computations of the
   contract's Newton iterations. For a stableswap pool with balances x_1..x_n (normalised to a common
   number of decimals), Ann = amp * n (the contract's convention), the exact invariant D* is the root
   of the strictly decreasing
        f(D) = Ann*S + D - Ann*D - D^(n+1) / (n^n * prod x)
   Multiplying by n^n * prod x gives an integer polynomial, so "D <= D*" is the multiplication-only test
        Ann*S*P + D*P >= Ann*D*P + D^(n+1),     P = n^n * prod x.                                  *)
EXTENDS Integers, Sequences, FiniteSets
CONSTANTS Add(_,_), Sub(_,_), Mul(_,_), Div(_,_), Le(_,_), N(_),
          DecScale      \* 1.0 as a fixed point number (10^18 in the contracts)

Zero == N(0)
One == N(1)
Two == N(2)
Lt(a, b) == ~Le(b, a)
Min(a, b) == IF Le(a, b) THEN a ELSE b
Max(a, b) == IF Le(a, b) THEN b ELSE a
RECURSIVE Pow(_, _)
Pow(b, k) == IF k = 0 THEN One ELSE Mul(b, Pow(b, k - 1))
Pow10(k) == Pow(N(10), k)
RECURSIVE SumSeq(_)
SumSeq(s) == IF s = <<>> THEN Zero ELSE Add(Head(s), SumSeq(Tail(s)))
RECURSIVE ProdSeq(_)
ProdSeq(s) == IF s = <<>> THEN One ELSE Mul(Head(s), ProdSeq(Tail(s)))
MulDiv(a, b, c) == Div(Mul(a, b), c)          \* floor(a*b/c)

(* ------------------------------------------------------------------ fees (C04) *)
(* fee = floor(share * gross), share an 18-digit fixed point number *)
FeeOf(share, gross) == Div(Mul(share, gross), DecScale)
FeeFloorOK(fee, share, gross) ==
  /\ Le(Mul(fee, DecScale), Mul(share, gross))
  /\ Lt(Mul(share, gross), Mul(Add(fee, One), DecScale))
RECURSIVE ExtraFeeOf(_, _)
ExtraFeeOf(shares, gross) == IF shares = <<>> THEN Zero ELSE Add(FeeOf(Head(shares), gross), ExtraFeeOf(Tail(shares), gross))
TotalShare(fee) == Add(Add(Add(fee.protocol, fee.swap), fee.burn), SumSeq(fee.extra))
FeesValid(fee) ==          \* each below 100%, at most 20% in total
  /\ Lt(fee.protocol, DecScale) /\ Lt(fee.swap, DecScale) /\ Lt(fee.burn, DecScale)
  /\ \A i \in DOMAIN fee.extra : Lt(fee.extra[i], DecScale)
  /\ Le(Mul(TotalShare(fee), N(5)), DecScale)

(* ------------------------------------------------------------------ constant product *)
CpGross(x, y, dx) == Div(Mul(y, dx), Add(x, dx))
CpInvariantNonDecreasing(x, y, x1, y1) == Le(Mul(x, y), Mul(x1, y1))
(* first deposit: minted = isqrt(a*b) - MinLiq, as a relation *)
IsqrtIs(r, v) == Le(Mul(r, r), v) /\ Lt(v, Mul(Add(r, One), Add(r, One)))
CpShare(dep, supply, reserve) == Div(Mul(dep, supply), reserve)
(* withdrawal of b out of supply S from reserve R pays p: at most R*b/S, at least that minus one unit *)
WithdrawShareOK(p, R, b, S) == Le(Mul(p, S), Mul(R, b)) /\ Le(Mul(R, b), Mul(Add(p, One), S))
WithdrawFloor(R, b, S) == Div(Mul(R, b), S)
(* sqrt(x*y)/S does not decrease:  x1*y1*S^2 >= x*y*S1^2 *)
CpValuePerLpNonDecreasing(x, y, S, x1, y1, S1) ==
  Le(Mul(Mul(x, y), Mul(S1, S1)), Mul(Mul(x1, y1), Mul(S, S)))

(* ------------------------------------------------------------------ stableswap invariant *)
NN(n) == Pow(N(n), n)
PP(xs) == Mul(NN(Len(xs)), ProdSeq(xs))
(* D <= D*  (g(D) >= 0) and D >= D*  (g(D) <= 0) *)
DBelowRoot(ann, xs, D) ==
  LET P == PP(xs) S == SumSeq(xs)
  IN Le(Add(Mul(Mul(ann, D), P), Pow(D, Len(xs) + 1)), Add(Mul(Mul(ann, S), P), Mul(D, P)))
DAboveRoot(ann, xs, D) ==
  LET P == PP(xs) S == SumSeq(xs)
  IN Le(Add(Mul(Mul(ann, S), P), Mul(D, P)), Add(Mul(Mul(ann, D), P), Pow(D, Len(xs) + 1)))
(* floor(D* ): bisection on [0, S]; g(0) >= 0 and g(S) <= 0 by AM-GM *)
RECURSIVE Bisect(_, _, _, _)
Bisect(ann, xs, lo, hi) ==
  IF Le(hi, lo) THEN lo
  ELSE LET mid == Div(Add(Add(lo, hi), One), Two)
       IN IF DBelowRoot(ann, xs, mid) THEN Bisect(ann, xs, mid, hi) ELSE Bisect(ann, xs, lo, Sub(mid, One))
RootFloor(ann, xs) == Bisect(ann, xs, Zero, SumSeq(xs))
(* marginal price of asset o in units of asset a at balances xs and invariant D, as a fraction:
   (Ann + C/x_o) / (Ann + C/x_a),  C = D^(n+1) / P  ==  (Ann*x_o*P + D^(n+1)) * x_a / ((Ann*x_a*P + D^(n+1)) * x_o) *)
MarginalNum(ann, xs, D, o, a) == Mul(Add(Mul(Mul(ann, xs[o]), PP(xs)), Pow(D, Len(xs) + 1)), xs[a])
MarginalDen(ann, xs, D, o, a) == Mul(Add(Mul(Mul(ann, xs[a]), PP(xs)), Pow(D, Len(xs) + 1)), xs[o])
(* exact-solution bracket for a quote (C19): after adding dx to asset o and removing gross from asset a
   (all in scaled units), the invariant computed with tol more / tol less of asset a must bracket D* of
   the pre-trade balances (d0 = floor(D* )). *)
QuoteBracketOK(ann, xs0, d0, o, a, dx, gross, tol) ==
  LET xo == Add(xs0[o], dx)
      ya == Sub(xs0[a], gross)
      up == [xs0 EXCEPT ![o] = xo, ![a] = Add(ya, tol)]
      dn == [xs0 EXCEPT ![o] = xo, ![a] = Sub(ya, tol)]
  IN /\ DBelowRoot(ann, up, d0)                                   \* gross <= exact + tol
     /\ (Le(ya, tol) \/ DAboveRoot(ann, dn, Add(d0, One)))         \* gross >= exact - tol

(* ------------------------------------------------------------------ price protections (C13) *)
OneMinus(t) == Sub(DecScale, t)
(* net >= dx * pn/pd * (1 - tol) - slack : the loss against price pn/pd is within tol *)
LossWithin(net, dx, pn, pd, tol, slack) ==
  Le(Mul(Mul(dx, pn), OneMinus(tol)), Mul(Mul(Add(net, slack), pd), DecScale))
(* net <= dx * pn/pd * (1 - tol) + slack : the loss is at least tol *)
LossAtLeast(net, dx, pn, pd, tol, slack) ==
  Le(Mul(Mul(Sub(net, slack), pd), DecScale), Mul(Mul(dx, pn), OneMinus(tol)))
(* two-asset deposit d into reserves R: both ratios within tolerance t (one ulp of the fixed point allowed) *)
DepositRatioWithin(d, R, t) ==
  /\ Le(Mul(Mul(d[1], OneMinus(t)), R[2]), Add(Mul(Mul(R[1], DecScale), d[2]), Mul(d[2], R[2])))
  /\ Le(Mul(Mul(d[2], OneMinus(t)), R[1]), Add(Mul(Mul(R[2], DecScale), d[1]), Mul(d[1], R[1])))
Proportional(d, R) == \A i, j \in DOMAIN d : Mul(d[i], R[j]) = Mul(d[j], R[i])
=============================================================================
