------------------------------- MODULE Epochs -------------------------------
(* The epoch manager: epochs are derived from (genesis, duration) and the block time; nothing is
   stored per epoch. Arithmetic is abstract (see DESIGN 2.2): MC_Epoch instantiates it with TLC
   integers, Trace_Epoch with BigNat, so the same operators judge the model and the real contract. *)
CONSTANTS Add(_,_), Sub(_,_), Mul(_,_), Div(_,_), Le(_,_), N(_),
          U64Max,        \* largest unsigned 64-bit value (as a number of the active arithmetic)
          TsMax,         \* largest block time / epoch start, in seconds, that a Timestamp can hold
          MinDuration    \* 86 400 in production

Lt(a, b) == ~Le(b, a)
Err == [ok |-> FALSE]

(* Epoch{id}: start = genesis + id * duration, refused when it is not representable *)
Representable(cfg, id) ==
  /\ Le(Mul(id, cfg.duration), U64Max)
  /\ Le(Add(cfg.genesis, Mul(id, cfg.duration)), TsMax)
EpochOf(cfg, id) ==
  IF Representable(cfg, id)
  THEN [ok |-> TRUE, id |-> id, start |-> Add(cfg.genesis, Mul(id, cfg.duration))]
  ELSE Err

(* CurrentEpoch{}: undefined before genesis *)
CurrentId(cfg, now) == Div(Sub(now, cfg.genesis), cfg.duration)
CurrentEpoch(cfg, now) ==
  IF Lt(now, cfg.genesis) THEN Err ELSE EpochOf(cfg, CurrentId(cfg, now))

(* configuration validation, at instantiate and at update *)
ConfigValid(now, cfg) == Le(MinDuration, cfg.duration) /\ Le(now, cfg.genesis)

(* ----- C18 as predicates over one answer r of CurrentEpoch at time now ----- *)
Partition(cfg, now, r) ==      \* now \in [start(id), start(id+1))
  r.ok => /\ Le(r.start, now)
          /\ Lt(now, Add(r.start, cfg.duration))
IdFormula(cfg, now, r) == r.ok => r.id = CurrentId(cfg, now)
StartFormula(cfg, r) == r.ok => r.start = Add(cfg.genesis, Mul(r.id, cfg.duration))
BeforeGenesisFails(cfg, now, r) == Lt(now, cfg.genesis) => ~r.ok
DefinedFromGenesis(cfg, now, r) ==
  (Le(cfg.genesis, now) /\ Representable(cfg, CurrentId(cfg, now))) => r.ok
=============================================================================
