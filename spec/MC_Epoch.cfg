CONSTANTS
  MaxNow = 24
  MaxGenesis = 6
  Durations = {1, 2, 3, 4}
  MinDur = 2
  U64 = 1000
  Ts = 40
SPECIFICATION Spec
VIEW View
INVARIANT C18_Partition
INVARIANT C18_BeforeGenesisFails
INVARIANT C18_DefinedFromGenesis
INVARIANT C18_StartConsistent
INVARIANT C18_ConfigNeverInvalid
INVARIANT C18_ExactlyOnePerDuration
PROPERTY C18_Monotone
PROPERTY C18_StepsByOne
PROPERTY C18_GenesisNeverMovesToPast
CHECK_DEADLOCK FALSE
