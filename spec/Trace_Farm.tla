----------------------------- MODULE Trace_Farm -----------------------------
(* Judges traces recorded from the real farm manager (harness drivers `farm`, `farm_replay`).

   st   : the projected state observed after the previous event (what a user can query)
   hid  : what a user cannot query and the specification therefore computes itself:
            cursor  - last claimed epoch per account (-1 = none)
            refW    - dense reference ledger of user weights  (step functions, Farms.tla)
            refTot  - dense reference ledger of total weights
            fills   - observed (amount, duration, weight) triples, for the monotonicity of the curve
            pieces  - some position was topped up or partially closed (C10 equality clause)
   Each event is judged by named guards; the observable part of the next state is adopted from the
   implementation so that the rest of the trace is still checked (DESIGN 2.5). *)
EXTENDS Integers, Sequences, FiniteSets, FiniteSetsExt, TLC, Json, IOUtils, TraceLib
BN == INSTANCE BigNat
BAdd(a, b) == BN!Add(a, b)
BSub(a, b) == BN!Sub(a, b)
BMul(a, b) == BN!Mul(a, b)
BDiv(a, b) == BN!Div(a, b)
BLe(a, b) == BN!Le(a, b)
BLt(a, b) == BN!Lt(a, b)
BNat(n) == BN!FromNat(n)
RECURSIVE BToIntR(_)
BToIntR(x) == IF x = <<>> THEN 0 ELSE x[1] + 10000 * BToIntR(Tail(x))
BToInt(x) == IF Len(x) > 2 THEN 1000000000 ELSE BToIntR(x)       \* saturating: TLC integers are 32 bit
E9 == BNat(1000000000)
Dec18 == BMul(E9, E9)
F == INSTANCE Farms WITH Add <- BAdd, Sub <- BSub, Mul <- BMul, Div <- BDiv, Le <- BLe, N <- BNat, DecScale <- Dec18
CV == INSTANCE FarmCurve WITH Add <- BAdd, Mul <- BMul, Div <- BDiv, Le <- BLe, N <- BNat
Z == <<>>

Rec == ndJsonDeserialize(IOEnv.TRACE)
VARIABLES l, cnt, st, hid
vars == <<l, cnt, st, hid>>

(* ------------------------------------------------------------------ helpers over the projected state *)
SeqToSet(s) == {s[i] : i \in DOMAIN s}
BSum(S, f(_)) == FoldSet(LAMBDA x, acc : BAdd(f(x), acc), Z, S)
Farms(s) == s.fm.farms
Pos(s) == s.fm.pos
Hist(s, a, lp) == IF a \in DOMAIN s.fm.hist /\ lp \in DOMAIN s.fm.hist[a] THEN s.fm.hist[a][lp] ELSE <<>>
Cur(s) == s.em.cur
OpenLps(s, a) == {Pos(s)[p].lp : p \in {q \in DOMAIN Pos(s) : Pos(s)[q].owner = a /\ Pos(s)[q].open}}
HasOpen(s, a) == OpenLps(s, a) # {}
EpochStart(s, e) == BAdd(s.em.genesis, BMul(BNat(e), s.em.duration))
FarmExpired(s, f) ==
  \/ BSub(f.amount, f.claimed) = Z
  \/ BLt(BAdd(EpochStart(s, f.end + 1), s.fm.cfg.expiry), s.now)
PosExpired(s, p) == p.expiring.set /\ BLe(p.expiring.t, s.now)

(* transfers: sequence of [from, to, d, a]; "none" = mint / burn *)
RECURSIVE ApplyT(_, _)
ApplyT(bal, T) ==
  IF T = <<>> THEN bal
  ELSE LET t == Head(T)
           b1 == IF t.from \in DOMAIN bal THEN [bal EXCEPT ![t.from][t.d] = BSub(@, t.a)] ELSE bal
           b2 == IF t.to \in DOMAIN b1 THEN [b1 EXCEPT ![t.to][t.d] = BAdd(@, t.a)] ELSE b1
       IN ApplyT(b2, Tail(T))
FundsT(e, to) == [i \in DOMAIN e.funds |-> [from |-> e.sender, to |-> to, d |-> e.funds[i].d, a |-> e.funds[i].a]]
Tr(from, to, d, a) == IF a = Z THEN <<>> ELSE <<[from |-> from, to |-> to, d |-> d, a |-> a]>>
FundAmt(e, d) == BSum({i \in DOMAIN e.funds : e.funds[i].d = d}, LAMBDA i : e.funds[i].a)
FundDenoms(e) == {e.funds[i].d : i \in DOMAIN e.funds}
Unchanged(s, p) == p.bal = s.bal /\ p.supply = s.supply /\ p.fm = s.fm

(* ------------------------------------------------------------------ state invariants, every event *)
Backed(s) ==   \* C05
  \A d \in DOMAIN s.bal["fm"] :
     BLe(BAdd(BSum({p \in DOMAIN Pos(s) : Pos(s)[p].lp = d}, LAMBDA p : Pos(s)[p].amt),
              BSum({f \in DOMAIN Farms(s) : Farms(s)[f].denom = d}, LAMBDA f : BSub(Farms(s)[f].amount, Farms(s)[f].claimed))),
         s.bal["fm"][d])
Users(h) == h.accts \ {"fm"}
TotalCovers(s, h) ==   \* C10: observed histories, every epoch up to cur + 1
  \A lp \in h.lps : \A x \in 0..(Cur(s) + 1) :
     BLe(BSum(Users(h), LAMBDA a : F!StepValue(Hist(s, a, lp), x)), F!StepValue(Hist(s, "fm", lp), x))
TotalEqualNow(s, h) ==
  \A lp \in h.lps :
     BSum(Users(h), LAMBDA a : F!LatestValue(Hist(s, a, lp))) = F!LatestValue(Hist(s, "fm", lp))
DenseBudget(s, h) ==   \* C06: per epoch, dense user weights never exceed the dense total
  \A lp \in h.lps : \A x \in 0..(Cur(s) + 1) :
     BLe(BSum(Users(h), LAMBDA a : F!StepValue(h.refW[a][lp], x)), F!StepValue(h.refTot[lp], x))
NoWeightWithoutPosition(s, h) ==
  \A a \in Users(h) : \A lp \in h.lps : (lp \notin OpenLps(s, a)) => Hist(s, a, lp) = <<>>
(* a user's weight is the weight of the user's open positions (FarmCurve); top-ups and partial closes round by one unit each *)
Near(x, y, k) == BLe(x, BAdd(y, k)) /\ BLe(y, BAdd(x, k))
OpenWeight(s, a, lp) == BSum({q \in DOMAIN Pos(s) : Pos(s)[q].owner = a /\ Pos(s)[q].lp = lp /\ Pos(s)[q].open},
                             LAMBDA q : CV!CurveWeight(Pos(s)[q].amt, Pos(s)[q].dur))
WeightIsThatOfOpenPositions(s, h, k) ==
  \A a \in Users(h) : \A lp \in h.lps : Near(F!LatestValue(Hist(s, a, lp)), OpenWeight(s, a, lp), k)
FarmLimit(s, h) ==
  \A lp \in h.lps : Cardinality({f \in DOMAIN Farms(s) : Farms(s)[f].lp = lp /\ ~FarmExpired(s, Farms(s)[f])}) <= s.fm.cfg.maxFarms
Cumulative(s) ==
  \A f \in DOMAIN Farms(s) : LET fa == Farms(s)[f] IN
     /\ BLe(fa.claimed, fa.amount)
     /\ BLe(fa.claimed, BMul(fa.rate, BNat(F!EmittedEpochs(fa, Cur(s)))))
Invariants(p, h) ==
  [ C05_backed              |-> Must(Backed(p)),
    C10_total_covers        |-> G(Cur(p) >= 0, TotalCovers(p, h)),
    C10_total_equal_simple  |-> G(~h.pieces, TotalEqualNow(p, h)),
    C10_no_weight_without_position |-> Must(NoWeightWithoutPosition(p, h)),
    C10_weight_is_that_of_open_positions |-> Must(WeightIsThatOfOpenPositions(p, h, BNat(4 + h.nops))),
    C06_epoch_budget        |-> G(Cur(p) >= 0, DenseBudget(p, h)),
    C06_cumulative          |-> G(Cur(p) >= 0, Cumulative(p)),
    C11_limit               |-> Must(FarmLimit(p, h)) ]

(* ------------------------------------------------------------------ hidden state updates *)
Hid0(e) == [ accts |-> SeqToSet(e.accts), lps |-> SeqToSet(e.lps),
             cursor |-> [a \in SeqToSet(e.accts) |-> -1],
             refW |-> [a \in SeqToSet(e.accts) |-> [lp \in SeqToSet(e.lps) |-> <<>>]],
             refTot |-> [lp \in SeqToSet(e.lps) |-> <<>>],
             fills |-> {}, pieces |-> FALSE ]
(* after a position operation of `a` on `lp` at epoch cur: the weights in effect from cur + 1 on are the
   latest recorded ones (read at write time); leaving an LP forfeits/settles its past *)
AfterWeightChange(h, p, a, lp) ==
  LET uw == F!LatestValue(Hist(p, a, lp))
      cw == F!LatestValue(Hist(p, "fm", lp))
      e1 == Cur(p) + 1
  IN [h EXCEPT !.refW[a][lp] = IF lp \in OpenLps(p, a) THEN F!SetFrom(@, e1, uw) ELSE <<>>,
               !.refTot[lp] = F!SetFrom(@, e1, cw),
               !.cursor[a] = IF HasOpen(p, a) THEN @ ELSE -1]

(* ------------------------------------------------------------------ positions (C08, C09, C10) *)
NewIds(s, p) == DOMAIN Pos(p) \ DOMAIN Pos(s)
HistOthersUnchanged(s, p, a, lp, h) ==
  \A b \in h.accts : \A q \in h.lps : (<<b, q>> \notin {<<a, lp>>, <<"fm", lp>>}) => Hist(p, b, q) = Hist(s, b, q)
(* entries for epochs <= cur are untouched and there is an entry for cur + 1 *)
NextEpochEffect(s, p, a, lp) ==
  LET e1 == Cur(s) + 1
      old(x) == SelectSeq(Hist(s, x, lp), LAMBDA c : c.e < e1)
      new(x) == SelectSeq(Hist(p, x, lp), LAMBDA c : c.e < e1)
  IN /\ old("fm") = new("fm")
     /\ (lp \in OpenLps(p, a) => old(a) = new(a))
     /\ \E i \in DOMAIN Hist(p, "fm", lp) : Hist(p, "fm", lp)[i].e = e1
     /\ (lp \in OpenLps(p, a) => \E i \in DOMAIN Hist(p, a, lp) : Hist(p, a, lp)[i].e = e1)
     /\ \A i \in DOMAIN Hist(p, "fm", lp) : Hist(p, "fm", lp)[i].e <= e1
     /\ \A i \in DOMAIN Hist(p, a, lp) : Hist(p, a, lp)[i].e <= e1
FillWeight(s, p, a, lp) == BSub(F!LatestValue(Hist(p, a, lp)), F!LatestValue(Hist(s, a, lp)))
CurveMonotone(h, amt, dur, w) ==
  \A t \in h.fills :
     /\ (BLe(amt, t.amt) /\ BLe(dur, t.dur)) => BLe(w, t.w)
     /\ (BLe(t.amt, amt) /\ BLe(t.dur, dur)) => BLe(t.w, w)

JudgePosCreate(s, h, e, p) ==
  LET one == Len(e.funds) = 1
      c == e.funds[1]
      owner == IF e.receiver = "none" THEN e.sender ELSE e.receiver
      nid == CHOOSE x \in NewIds(s, p) : TRUE
      good == e.ok /\ one /\ Cardinality(NewIds(s, p)) = 1
      w == FillWeight(s, p, owner, c.d)
  IN [ C08_create_only_for_self_or_by_pm |-> G(e.ok, e.receiver = "none" \/ e.receiver = e.sender \/ e.sender = s.fm.cfg.pm),
       C15_create_for_other_only_pm      |-> G(e.ok /\ e.receiver # "none" /\ e.receiver # e.sender, e.sender = s.fm.cfg.pm),
       C08_create_valid_params |-> G(e.ok, one /\ c.d \in h.lps /\ BLe(s.fm.cfg.minDur, e.dur) /\ BLe(e.dur, s.fm.cfg.maxDur)),
       C08_create_one_new_position |-> G(e.ok, Cardinality(NewIds(s, p)) = 1 /\ DOMAIN Pos(s) \subseteq DOMAIN Pos(p)),
       C08_create_explicit_id  |-> G(good /\ e.pid # "none", nid = "u-" \o e.pid),
       C08_create_effect       |-> G(good, /\ Pos(p)[nid] = [owner |-> owner, lp |-> c.d, amt |-> c.a, dur |-> e.dur, open |-> TRUE, expiring |-> [set |-> FALSE, t |-> <<>>]]
                                           /\ \A q \in DOMAIN Pos(s) : Pos(p)[q] = Pos(s)[q]
                                           /\ Farms(p) = Farms(s)),
       C08_create_takes_exactly_funds |-> G(e.ok, p.bal = ApplyT(s.bal, FundsT(e, "fm")) /\ p.supply = s.supply),
       C10_effect_next_epoch   |-> G(good, NextEpochEffect(s, p, owner, c.d) /\ HistOthersUnchanged(s, p, owner, c.d, h)),
       C10_fill_adds_same_weight |-> G(good, BSub(F!LatestValue(Hist(p, "fm", c.d)), F!LatestValue(Hist(s, "fm", c.d))) = w),
       C10_curve_bounds        |-> G(good, F!WeightBoundsOK(c.a, w)),
       C10_curve_monotone      |-> G(good, CurveMonotone(h, c.a, e.dur, w)),
       M_curve_reference       |-> G(good, w = CV!CurveWeight(c.a, e.dur)),
       C20_farm_rejected_noop  |-> G(~e.ok, Unchanged(s, p)) ]
HidPosCreate(s, h, e, p) ==
  IF ~e.ok \/ Len(e.funds) # 1 THEN h
  ELSE LET c == e.funds[1]
           owner == IF e.receiver = "none" THEN e.sender ELSE e.receiver
           h1 == AfterWeightChange(h, p, owner, c.d)
       IN [h1 EXCEPT !.fills = IF Cardinality(@) < 40 THEN @ \cup {[amt |-> c.a, dur |-> e.dur, w |-> FillWeight(s, p, owner, c.d)]} ELSE @]

JudgePosExpand(s, h, e, p) ==
  LET known == e.pid \in DOMAIN Pos(s)
      pp == Pos(s)[e.pid]
      one == Len(e.funds) = 1
      c == e.funds[1]
      good == e.ok /\ known /\ one
      w == FillWeight(s, p, pp.owner, pp.lp)
  IN [ C08_expand_only_owner_or_pm |-> G(e.ok, known /\ (e.sender = pp.owner \/ e.sender = s.fm.cfg.pm)),
       C15_expand_only_owner_or_pm |-> G(e.ok, known /\ (e.sender = pp.owner \/ e.sender = s.fm.cfg.pm)),
       C08_expand_open_same_denom  |-> G(good, pp.open /\ c.d = pp.lp),
       C08_expand_effect       |-> G(good, /\ DOMAIN Pos(p) = DOMAIN Pos(s)
                                           /\ Pos(p)[e.pid] = [pp EXCEPT !.amt = BAdd(@, c.a)]
                                           /\ \A q \in DOMAIN Pos(s) \ {e.pid} : Pos(p)[q] = Pos(s)[q]
                                           /\ Farms(p) = Farms(s)),
       C08_expand_takes_exactly_funds |-> G(e.ok, p.bal = ApplyT(s.bal, FundsT(e, "fm")) /\ p.supply = s.supply),
       C10_effect_next_epoch   |-> G(good, NextEpochEffect(s, p, pp.owner, pp.lp) /\ HistOthersUnchanged(s, p, pp.owner, pp.lp, h)),
       C10_fill_adds_same_weight |-> G(good, BSub(F!LatestValue(Hist(p, "fm", pp.lp)), F!LatestValue(Hist(s, "fm", pp.lp))) = w),
       C10_curve_bounds        |-> G(good, F!WeightBoundsOK(c.a, w)),
       C10_curve_monotone      |-> G(good, CurveMonotone(h, c.a, pp.dur, w)),
       C20_farm_rejected_noop  |-> G(~e.ok, Unchanged(s, p)) ]
HidPosExpand(s, h, e, p) ==
  IF ~e.ok \/ e.pid \notin DOMAIN Pos(s) THEN h
  ELSE [AfterWeightChange(h, p, Pos(s)[e.pid].owner, Pos(s)[e.pid].lp) EXCEPT !.pieces = TRUE]

JudgePosClose(s, h, e, p) ==
  LET known == e.pid \in DOMAIN Pos(s)
      pp == Pos(s)[e.pid]
      full == ~e.partial.set \/ e.partial.a = pp.amt
      good == e.ok /\ known
      exp == [set |-> TRUE, t |-> BAdd(s.now, pp.dur)]
      nid == CHOOSE x \in NewIds(s, p) : TRUE
  IN [ C08_close_only_owner    |-> G(e.ok, known /\ e.sender = pp.owner),
       C15_close_only_owner    |-> G(e.ok, known /\ e.sender = pp.owner),
       C08_close_open_only     |-> G(good, pp.open /\ (e.partial.set => (e.partial.d = pp.lp /\ BLe(e.partial.a, pp.amt)))),
       C08_close_full_effect   |-> G(good /\ full, /\ DOMAIN Pos(p) = DOMAIN Pos(s)
                                                   /\ Pos(p)[e.pid] = [pp EXCEPT !.open = FALSE, !.expiring = exp]
                                                   /\ \A q \in DOMAIN Pos(s) \ {e.pid} : Pos(p)[q] = Pos(s)[q]),
       C08_close_partial_effect |-> G(good /\ ~full, /\ Cardinality(NewIds(s, p)) = 1
                                                     /\ DOMAIN Pos(s) \subseteq DOMAIN Pos(p)
                                                     /\ Pos(p)[e.pid] = [pp EXCEPT !.amt = BSub(@, e.partial.a)]
                                                     /\ Pos(p)[nid] = [pp EXCEPT !.amt = e.partial.a, !.open = FALSE, !.expiring = exp]
                                                     /\ \A q \in DOMAIN Pos(s) \ {e.pid} : Pos(p)[q] = Pos(s)[q]),
       C08_close_moves_no_tokens |-> G(e.ok, p.bal = s.bal /\ p.supply = s.supply /\ Farms(p) = Farms(s)),
       C10_effect_next_epoch   |-> G(good, NextEpochEffect(s, p, pp.owner, pp.lp) /\ HistOthersUnchanged(s, p, pp.owner, pp.lp, h)),
       \* what stops counting is the weight of the closed amount at the position's own lock (FarmCurve), saturating at zero;
       \* when the last open position of the LP is closed the history is wiped instead
       C10_close_removes_closed_weight |-> G(good /\ pp.lp \in OpenLps(p, pp.owner),
                                             LET uw == F!LatestValue(Hist(s, pp.owner, pp.lp))
                                                 x == IF e.partial.set THEN e.partial.a ELSE pp.amt
                                             IN F!LatestValue(Hist(p, pp.owner, pp.lp)) = BSub(uw, CV!CurveWeight(x, pp.dur))),
       C06_closed_position_stops_earning |-> G(good /\ pp.lp \in OpenLps(p, pp.owner),
                                               LET uw == F!LatestValue(Hist(s, pp.owner, pp.lp))
                                                   x == IF e.partial.set THEN e.partial.a ELSE pp.amt
                                               IN F!LatestValue(Hist(p, pp.owner, pp.lp)) = BSub(uw, CV!CurveWeight(x, pp.dur))),
       C10_close_never_adds_weight |-> G(good, /\ BLe(F!LatestValue(Hist(p, pp.owner, pp.lp)), F!LatestValue(Hist(s, pp.owner, pp.lp)))
                                               /\ BLe(F!LatestValue(Hist(p, "fm", pp.lp)), F!LatestValue(Hist(s, "fm", pp.lp)))),
       C20_farm_rejected_noop  |-> G(~e.ok, Unchanged(s, p)) ]
HidPosClose(s, h, e, p) ==
  IF ~e.ok \/ e.pid \notin DOMAIN Pos(s) THEN h
  ELSE LET pp == Pos(s)[e.pid]
           h1 == AfterWeightChange(h, p, pp.owner, pp.lp)
       IN [h1 EXCEPT !.pieces = @ \/ (e.partial.set /\ e.partial.a # pp.amt)]

(* owners of farms that currently pay on lp: started and not expired *)
ActiveOwners(s, lp) ==
  {Farms(s)[f].owner : f \in {g \in DOMAIN Farms(s) : Farms(s)[g].lp = lp /\ Farms(s)[g].start <= Cur(s) /\ ~FarmExpired(s, Farms(s)[g])}}
RECURSIVE OwnerTransfers(_, _, _)
OwnerTransfers(S, lp, share) ==
  IF S = {} THEN <<>> ELSE LET o == CHOOSE x \in S : TRUE IN Tr("fm", o, lp, share) \o OwnerTransfers(S \ {o}, lp, share)
JudgePosWithdraw(s, h, e, p) ==
  LET known == e.pid \in DOMAIN Pos(s)
      pp == Pos(s)[e.pid]
      expired == PosExpired(s, pp)
      emerg == e.emergency /\ ~expired
      good == e.ok /\ known
      paid == BSub(p.bal[pp.owner][pp.lp], s.bal[pp.owner][pp.lp])
      A == ActiveOwners(s, pp.lp)
      fc == s.fm.cfg.fc
      clean == pp.owner \notin A /\ pp.owner # fc      \* the owner's receipt is the position payout only
      rem == IF pp.open THEN pp.dur ELSE BSub(pp.expiring.t, s.now)
      w == CV!CurveWeight(pp.amt, pp.dur)
      penObs == BSub(pp.amt, paid)                     \* penalty as observed (when clean)
      out == BSub(s.bal["fm"][pp.lp], p.bal["fm"][pp.lp])
      \* the contract's own arithmetic, for the model-conformance guard only
      penC == F!PenaltyAsComputed(pp.amt, pp.dur, rem, s.fm.cfg.penalty, w)
      share == F!SharePerOwner(penC, Cardinality(A))
      toOwners == A # {} /\ share # Z
      fcPart == IF toOwners THEN BSub(penC, F!OwnerCommission(penC)) ELSE penC
      T == Tr("fm", pp.owner, pp.lp, BSub(pp.amt, penC)) \o (IF toOwners THEN OwnerTransfers(A, pp.lp, share) ELSE <<>>)
           \o Tr("fm", fc, pp.lp, fcPart)
      Recipients == {pp.owner, "fm", fc} \cup A
  IN [ C08_withdraw_only_owner |-> G(e.ok, known /\ e.sender = pp.owner),
       C15_withdraw_only_owner |-> G(e.ok, known /\ e.sender = pp.owner),
       C08_withdraw_timing     |-> G(good /\ ~e.emergency, ~pp.open /\ expired),
       C08_withdraw_available  |-> G(known /\ e.sender = pp.owner /\ ~pp.open /\ expired /\ e.funds = <<>>, e.ok),
       C08_withdraw_pays_exactly |-> G(good /\ ~emerg, /\ p.bal = ApplyT(s.bal, Tr("fm", pp.owner, pp.lp, pp.amt))
                                                       /\ p.supply = s.supply),
       C08_withdraw_deletes    |-> G(good, /\ DOMAIN Pos(p) = DOMAIN Pos(s) \ {e.pid}
                                           /\ \A q \in DOMAIN Pos(p) : Pos(p)[q] = Pos(s)[q]
                                           /\ Farms(p) = Farms(s)),
       C09_emergency_exit_available |-> G(known /\ e.sender = pp.owner /\ e.emergency /\ e.funds = <<>>, e.ok),
       C09_zero_after_unlock   |-> G(good /\ e.emergency /\ expired, paid = pp.amt),
       C09_bound               |-> G(good /\ emerg /\ clean, F!PenaltyBoundOK(penObs, pp.amt)),
       C09_formula             |-> G(good /\ emerg /\ clean, F!PenaltyFormulaOK(penObs, pp.amt, pp.dur, rem, s.fm.cfg.penalty, w)),
       C09_split_recipients    |-> G(good /\ emerg, /\ p.supply = s.supply
                                                     /\ \A a \in DOMAIN s.bal : \A d \in DOMAIN s.bal[a] :
                                                          p.bal[a][d] # s.bal[a][d] => (d = pp.lp /\ a \in Recipients
                                                                                       /\ (a # "fm" => BLe(s.bal[a][d], p.bal[a][d])))),
       C09_all_to_fee_collector_without_active_farms |-> G(good /\ emerg /\ clean /\ A = {},
                                                           BSub(p.bal[fc][pp.lp], s.bal[fc][pp.lp]) = penObs /\ out = pp.amt),
       \* "the owners of currently active farms": when owners receive anything, no owner of an active farm is left out
       C09_no_active_owner_left_out |-> G(good /\ emerg /\ clean,
                                          LET gain(a) == BSub(p.bal[a][pp.lp], s.bal[a][pp.lp]) IN
                                          (\E a \in A \ {fc} : gain(a) # Z) => (\A a \in A \ {fc} : gain(a) # Z)),
       \* with active farms and a penalty large enough for a unit per owner, the owners' part does not go elsewhere
       C09_owners_share_when_active_farms_exist |-> G(good /\ emerg /\ clean /\ (A \ {fc}) # {} /\ F!SharePerOwner(penObs, Cardinality(A)) # Z,
                                                      \E a \in A \ {fc} : BSub(p.bal[a][pp.lp], s.bal[a][pp.lp]) # Z),
       C09_accounted           |-> G(good /\ emerg, BLe(out, pp.amt) /\ BLe(pp.amt, BAdd(out, BNat(Cardinality(A))))),
       M_penalty_split_exact   |-> G(good /\ emerg, p.bal = ApplyT(s.bal, T)),
       \* an open position taken out by an emergency exit stops weighing (and earning) whether or not a farm exists at that moment
       C06_withdrawn_position_stops_earning |-> G(good /\ emerg /\ pp.open /\ pp.lp \in OpenLps(p, pp.owner),
                                                  F!LatestValue(Hist(p, pp.owner, pp.lp)) = BSub(F!LatestValue(Hist(s, pp.owner, pp.lp)), CV!CurveWeight(pp.amt, pp.dur))),
       C10_effect_next_epoch   |-> G(good /\ pp.open, NextEpochEffect(s, p, pp.owner, pp.lp) /\ HistOthersUnchanged(s, p, pp.owner, pp.lp, h)),
       C10_closed_withdraw_keeps_weights |-> G(good /\ ~pp.open, p.fm.hist = s.fm.hist),
       C20_farm_rejected_noop  |-> G(~e.ok, Unchanged(s, p)) ]
HidPosWithdraw(s, h, e, p) ==
  IF ~e.ok \/ e.pid \notin DOMAIN Pos(s) THEN h
  ELSE LET pp == Pos(s)[e.pid] IN IF pp.open THEN AfterWeightChange(h, p, pp.owner, pp.lp) ELSE h

(* ------------------------------------------------------------------ claims (C06, C07) *)
Until(s, e) == IF e.until = -1 THEN Cur(s) ELSE e.until
From(h, a) == IF h.cursor[a] = -1 THEN 0 ELSE h.cursor[a] + 1
Owed(s, h, a, f, until) ==
  IF (h.cursor[a] # -1 /\ until = h.cursor[a]) \/ Farms(s)[f].lp \notin OpenLps(s, a) THEN Z
  ELSE F!FarmOwes(Farms(s)[f], h.refW[a][Farms(s)[f].lp], h.refTot[Farms(s)[f].lp], From(h, a), until)
OwedDenom(s, h, a, d, until) == BSum({f \in DOMAIN Farms(s) : Farms(s)[f].denom = d}, LAMBDA f : Owed(s, h, a, f, until))
RECURSIVE ClaimTransfers(_, _, _, _, _)
ClaimTransfers(s, h, a, D, until) ==
  IF D = {} THEN <<>> ELSE LET d == CHOOSE x \in D : TRUE
                           IN Tr("fm", a, d, OwedDenom(s, h, a, d, until)) \o ClaimTransfers(s, h, a, D \ {d}, until)
QuoteAmt(e, d) == BSum({i \in DOMAIN e.quote.total : e.quote.total[i].d = d}, LAMBDA i : e.quote.total[i].a)
JudgeClaim(s, h, e, p) ==
  LET a == e.sender
      until == Until(s, e)
      valid == Cur(s) >= 0 /\ until <= Cur(s) /\ (h.cursor[a] # -1 => until >= h.cursor[a])
      D == DOMAIN s.supply
  IN [ C06_no_double_pay       |-> G(e.ok, valid),
       C06_claim_needs_position |-> G(e.ok, HasOpen(s, a)),
       C06_no_overpay          |-> G(e.ok /\ valid, \A d \in D : BLe(BSub(p.bal[a][d], s.bal[a][d]), OwedDenom(s, h, a, d, until))),
       C07_exact_share         |-> G(e.ok /\ valid, p.bal = ApplyT(s.bal, ClaimTransfers(s, h, a, D, until)) /\ p.supply = s.supply),
       C07_claimed_accounting  |-> G(e.ok /\ valid, /\ DOMAIN Farms(p) = DOMAIN Farms(s)
                                                    /\ \A f \in DOMAIN Farms(s) : Farms(p)[f] = [Farms(s)[f] EXCEPT !.claimed = BAdd(@, Owed(s, h, a, f, until))]),
       C07_query_equals_claim  |-> G(e.ok /\ e.quote.ok, \A d \in D : QuoteAmt(e, d) = BSub(p.bal[a][d], s.bal[a][d])),
       C07_query_available     |-> G(e.ok, e.quote.ok),
       C06_no_starvation       |-> G(e.err = "farm_exhausted", FALSE),
       C06_rightful_claim_succeeds |-> G(HasOpen(s, a) /\ valid /\ e.funds = <<>>, e.ok),
       C06_claim_preserves_weights |-> G(e.ok /\ valid, /\ \A lp \in h.lps : \A x \in until..(Cur(s) + 1) :
                                                              F!StepValue(Hist(p, a, lp), x) = F!StepValue(Hist(s, a, lp), x)
                                                        /\ \A b \in h.accts \ {a} : \A lp \in h.lps : Hist(p, b, lp) = Hist(s, b, lp)),
       C08_claim_keeps_positions |-> G(e.ok, Pos(p) = Pos(s)),
       C20_farm_rejected_noop  |-> G(~e.ok, Unchanged(s, p)) ]
HidClaim(s, h, e, p) == IF e.ok THEN [h EXCEPT !.cursor[e.sender] = Until(s, e)] ELSE h

(* ------------------------------------------------------------------ farms (C11) *)
NewFarms(s, p) == DOMAIN Farms(p) \ DOMAIN Farms(s)
ExpiredOn(s, lp) == {f \in DOMAIN Farms(s) : Farms(s)[f].lp = lp /\ FarmExpired(s, Farms(s)[f])}
RECURSIVE RefundTransfers(_, _)
RefundTransfers(s, S) ==
  IF S = {} THEN <<>> ELSE LET f == CHOOSE x \in S : TRUE
                           IN Tr("fm", Farms(s)[f].owner, Farms(s)[f].denom, BSub(Farms(s)[f].amount, Farms(s)[f].claimed))
                              \o RefundTransfers(s, S \ {f})
JudgeCreateFarm(s, h, e, p) ==
  LET fee == s.fm.cfg.fee
      start == IF e.start = -1 THEN Cur(s) + 1 ELSE e.start
      end == IF e.end = -1 THEN start + 14 ELSE e.end
      same == fee.denom = e.denom
      fundsExact == IF fee.amt = Z THEN FundDenoms(e) = {e.denom} /\ FundAmt(e, e.denom) = e.amt
                    ELSE IF same THEN FundDenoms(e) = {e.denom} /\ FundAmt(e, e.denom) = BAdd(e.amt, fee.amt)
                    ELSE FundDenoms(e) = {e.denom, fee.denom} /\ FundAmt(e, e.denom) = e.amt /\ BLe(fee.amt, FundAmt(e, fee.denom))
      refund == IF fee.amt # Z /\ ~same THEN BSub(FundAmt(e, fee.denom), fee.amt) ELSE Z
      exp == IF e.lp \in h.lps THEN ExpiredOn(s, e.lp) ELSE {}
      nid == CHOOSE x \in NewFarms(s, p) : TRUE
      good == e.ok /\ Cardinality(NewFarms(s, p)) = 1
      T == FundsT(e, "fm") \o Tr("fm", s.fm.cfg.fc, fee.denom, fee.amt) \o Tr("fm", e.sender, fee.denom, refund) \o RefundTransfers(s, exp)
      live == {f \in DOMAIN Farms(s) : Farms(s)[f].lp = e.lp} \ exp
      expectedId == IF e.fid = "none" THEN "none" ELSE "m-" \o e.fid
      acceptable == /\ e.lp \in h.lps /\ Cur(s) >= 0 /\ fundsExact /\ Len(e.funds) = Cardinality(FundDenoms(e))
                    /\ F!EpochsValid(Cur(s), s.fm.cfg.buffer, start, end)
                    /\ BLe(BNat(1000), e.amt) /\ Cardinality(live) < s.fm.cfg.maxFarms
                    /\ (e.fid = "none" \/ expectedId \notin DOMAIN Farms(s))
  IN [ C11_create_exact_funds  |-> G(e.ok, fundsExact),
       C11_create_fee_and_refunds |-> G(e.ok, p.bal = ApplyT(s.bal, T) /\ p.supply = s.supply),
       C11_create_epochs_valid |-> G(e.ok, F!EpochsValid(Cur(s), s.fm.cfg.buffer, start, end) /\ e.lp \in h.lps),
       C11_create_one_new_farm |-> G(e.ok, Cardinality(NewFarms(s, p)) = 1),
       C11_create_explicit_id  |-> G(good /\ e.fid # "none", nid = expectedId),
       C11_create_records_budget |-> G(good, Farms(p)[nid] = [owner |-> e.sender, lp |-> e.lp, denom |-> e.denom, amount |-> e.amt, claimed |-> Z,
                                                              \* epochs beyond 10^9 are projected to 10^9 (32-bit TLC integers): the rate of such a farm is taken as observed
                                                              rate |-> IF end >= 1000000000 THEN Farms(p)[nid].rate ELSE F!EmissionRate(e.amt, start, end),
                                                              start |-> start, end |-> end]),
       \* the authorisation view of the same rule: a creation by anybody closes only farms that have expired (closing a live farm
       \* takes its owner or the contract owner)
       C15_creation_closes_only_expired_farms |-> G(good, \A f \in DOMAIN Farms(s) \ DOMAIN Farms(p) : f \in exp),
       C11_create_autoclose_only_expired |-> G(good, /\ DOMAIN Farms(p) = (DOMAIN Farms(s) \ exp) \cup {nid}
                                                     /\ \A f \in DOMAIN Farms(s) \ exp : Farms(p)[f] = Farms(s)[f]),
       C11_create_accepts_exact |-> G(acceptable, e.ok),
       C11_create_keeps_positions |-> G(e.ok, Pos(p) = Pos(s) /\ p.fm.hist = s.fm.hist),
       C20_farm_rejected_noop  |-> G(~e.ok, Unchanged(s, p)) ]

JudgeExpandFarm(s, h, e, p) ==
  LET known == e.fid \in DOMAIN Farms(s)
      f == Farms(s)[e.fid]
      good == e.ok /\ known
  IN [ C11_expand_only_owner   |-> G(e.ok, known /\ e.sender = f.owner),
       C15_expand_farm_only_owner |-> G(e.ok, known /\ e.sender = f.owner),
       C11_expand_before_end   |-> G(good, Cur(s) < f.end /\ ~FarmExpired(s, f)),
       C11_expand_exact_funds  |-> G(good, FundDenoms(e) = {f.denom} /\ Len(e.funds) = 1 /\ FundAmt(e, f.denom) = e.amt /\ e.denom = f.denom
                                           /\ F!ExpansionValid(f, e.amt)),
       C11_expand_effect       |-> G(good, /\ DOMAIN Farms(p) = DOMAIN Farms(s)
                                           /\ Farms(p)[e.fid] = [f EXCEPT !.amount = BAdd(@, e.amt), !.end = F!ExpandedEnd(f, e.amt, BToInt)]
                                           /\ \A g \in DOMAIN Farms(s) \ {e.fid} : Farms(p)[g] = Farms(s)[g]
                                           /\ Pos(p) = Pos(s) /\ p.fm.hist = s.fm.hist),
       C11_expand_takes_exactly_funds |-> G(e.ok, p.bal = ApplyT(s.bal, FundsT(e, "fm")) /\ p.supply = s.supply),
       C20_farm_rejected_noop  |-> G(~e.ok, Unchanged(s, p)) ]

JudgeCloseFarm(s, h, e, p) ==
  LET known == e.fid \in DOMAIN Farms(s)
      f == Farms(s)[e.fid]
      good == e.ok /\ known
  IN [ C11_close_only_owners   |-> G(e.ok, known /\ (e.sender = f.owner \/ e.sender = h.fmOwner)),
       C15_close_farm_only_owners |-> G(e.ok, known /\ (e.sender = f.owner \/ e.sender = h.fmOwner)),
       C11_close_refunds_remainder_to_owner |-> G(good, p.bal = ApplyT(s.bal, RefundTransfers(s, {e.fid})) /\ p.supply = s.supply),
       C11_close_removes_only_it |-> G(good, /\ DOMAIN Farms(p) = DOMAIN Farms(s) \ {e.fid}
                                             /\ \A g \in DOMAIN Farms(p) : Farms(p)[g] = Farms(s)[g]
                                             /\ Pos(p) = Pos(s) /\ p.fm.hist = s.fm.hist),
       C11_close_available     |-> G(known /\ (e.sender = f.owner \/ e.sender = h.fmOwner) /\ e.funds = <<>>, e.ok),
       C20_farm_rejected_noop  |-> G(~e.ok, Unchanged(s, p)) ]

(* configuration rules that are not part of the listed properties (S_): the unlocking range is ordered, farms expire no
   sooner than a month after their end, the penalty is at most 100 %, the farm limit is positive and never lowered *)
Month == BNat(2629746)
CfgValid(c) == BLe(c.minDur, c.maxDur) /\ BLe(Month, c.expiry) /\ BLe(c.penalty, Dec18) /\ c.maxFarms > 0
JudgeUpdateConfig(s, h, e, p) ==
  [ S_config_valid_after_update |-> G(e.ok, CfgValid(p.fm.cfg) /\ p.fm.cfg.maxFarms >= s.fm.cfg.maxFarms),
    C15_fm_config_only_owner |-> G(e.ok, e.sender = h.fmOwner /\ e.funds = <<>>),
    C15_fm_config_touches_only_config |-> G(e.ok, p.bal = s.bal /\ p.supply = s.supply /\ Farms(p) = Farms(s) /\ Pos(p) = Pos(s) /\ p.fm.hist = s.fm.hist),
    C20_farm_rejected_noop |-> G(~e.ok, Unchanged(s, p)) ]

JudgeAdvance(s, h, e, p) ==
  [ C20_time_changes_nothing |-> Must(Unchanged(s, p)) ]

(* ------------------------------------------------------------------ replayed TLC behaviours (MC_Farm) *)
ModelGuards(s, e, p) ==
  IF "model" \in DOMAIN e /\ e.model.set
  THEN [ M_model_step_accepted |-> Must(e.ok),
         C07_model_payout_agrees |-> G(e.ok /\ e.ev = "fm_claim" /\ e.model.paid >= 0,
                                       BSub(p.bal[e.sender][e.model.denom], s.bal[e.sender][e.model.denom]) = BNat(e.model.paid)) ]
  ELSE NoGuards

(* ------------------------------------------------------------------ twins: one history, several claim schedules *)
JudgeTwin(e) ==
  [ C07_schedule_independent |-> Must(\A i, j \in DOMAIN e.totals : e.totals[i] = e.totals[j]) ]

(* ------------------------------------------------------------------ limits that are not part of the listed properties (S_) *)
OpenCount(s, a) == Cardinality({q \in DOMAIN Pos(s) : Pos(s)[q].owner = a /\ Pos(s)[q].open})
ClosedCount(s, a) == Cardinality({q \in DOMAIN Pos(s) : Pos(s)[q].owner = a /\ ~Pos(s)[q].open})
PositionLimits(p, h) ==
  [ S_at_most_ten_open_and_ten_closed_positions |-> Must(\A a \in h.accts : OpenCount(p, a) <= 10 /\ ClosedCount(p, a) <= 10) ]

(* paginated queries return every item exactly once, in order, at most `limit` per page (S_) *)
JudgePages(e) ==
  [ S_pagination_complete_and_ordered |-> Must(e.paged = e.all /\ \A i \in DOMAIN e.page_sizes : e.page_sizes[i] <= e.limit) ]

(* ------------------------------------------------------------------ the trace *)
Kind(e) == e.ev
Judge(s, h, e) ==
  LET p == IF Kind(e) \in {"twin", "q_pages", "fm_instantiate", "driver_abort"} THEN s ELSE e.post IN
  CASE Kind(e) = "reset" -> NoGuards
    [] Kind(e) = "driver_abort" -> [ M_driver_completed |-> Must(FALSE) ]
    [] Kind(e) = "twin" -> JudgeTwin(e)
    [] Kind(e) = "q_pages" -> JudgePages(e)
    [] Kind(e) = "advance" -> JudgeAdvance(s, h, e, p)
    [] Kind(e) = "bank_send" -> [ M_plain_transfer_touches_no_farm_state |-> Must(p.fm = s.fm /\ p.supply = s.supply) ]
    [] Kind(e) = "fm_pos_create" -> JudgePosCreate(s, h, e, p)
    [] Kind(e) = "fm_pos_expand" -> JudgePosExpand(s, h, e, p)
    [] Kind(e) = "fm_pos_close" -> JudgePosClose(s, h, e, p)
    [] Kind(e) = "fm_pos_withdraw" -> JudgePosWithdraw(s, h, e, p)
    [] Kind(e) = "fm_claim" -> JudgeClaim(s, h, e, p)
    [] Kind(e) = "fm_create_farm" -> JudgeCreateFarm(s, h, e, p)
    [] Kind(e) = "fm_expand_farm" -> JudgeExpandFarm(s, h, e, p)
    [] Kind(e) = "fm_close_farm" -> JudgeCloseFarm(s, h, e, p)
    [] Kind(e) = "fm_update_config" -> JudgeUpdateConfig(s, h, e, p)
    [] Kind(e) = "fm_instantiate" -> [ S_instantiate_validates_config |-> Must(e.ok <=> CfgValid(e.cfg)) ]
NextHid(s, h, e) ==
  LET p == e.post IN
  CASE Kind(e) = "reset" -> Hid0(e) @@ [fmOwner |-> "u1", nops |-> 0]
    [] Kind(e) = "fm_pos_create" -> HidPosCreate(s, h, e, p)
    [] Kind(e) = "fm_pos_expand" -> HidPosExpand(s, h, e, p)
    [] Kind(e) = "fm_pos_close" -> HidPosClose(s, h, e, p)
    [] Kind(e) = "fm_pos_withdraw" -> HidPosWithdraw(s, h, e, p)
    [] Kind(e) = "fm_claim" -> HidClaim(s, h, e, p)
    [] OTHER -> h

Init == l = 1 /\ cnt = NoGuards /\ st = [none |-> TRUE] /\ hid = [none |-> TRUE]
Step == /\ l <= Len(Rec)
        /\ LET e == Rec[l]
               h0 == NextHid(st, hid, e)
               h1 == IF Kind(e) = "reset" THEN h0 ELSE [h0 EXCEPT !.nops = @ + 1]     \* events since the reset
               gs == Judge(st, hid, e) @@ (IF Kind(e) \in {"reset", "twin", "q_pages", "fm_instantiate", "driver_abort"} THEN NoGuards ELSE Invariants(e.post, h1) @@ ModelGuards(st, e, e.post) @@ PositionLimits(e.post, h1))
           IN /\ Report(e.i, e.sc, gs)
              /\ cnt' = Count(cnt, gs)
              /\ st' = IF Kind(e) \in {"twin", "q_pages", "fm_instantiate", "driver_abort"} THEN st ELSE e.post
              /\ hid' = h1
        /\ l' = l + 1
Finish == l = Len(Rec) + 1 /\ PrintCounts(cnt) /\ l' = l + 1 /\ UNCHANGED <<cnt, st, hid>>
Spec == Init /\ [][Step \/ Finish]_vars
Accepted == /\ PrintT(<<"CONSUMED", TLCGet("stats").diameter - 2, Len(Rec)>>)
            /\ TLCGet("stats").diameter - 2 = Len(Rec)
=============================================================================
