------------------------------ MODULE MC_Math ------------------------------
(* Formula-level lemmas behind the numeric properties, enumerated by TLC on small grids with the same
   operators (Pools.tla, Farms.tla) that judge the real contracts with BigNat arithmetic.
   There is no behaviour: every grid point is an initial state and every lemma an invariant.
   DecScale = 100 (percent). *)
EXTENDS Integers, Sequences, FiniteSets, TLC
CONSTANTS MaxR, MaxD, Fees, Tols

IAdd(a, b) == a + b
ISub(a, b) == IF a >= b THEN a - b ELSE 0
IMul(a, b) == a * b
IDiv(a, b) == a \div b
ILe(a, b) == a <= b
INat(n) == n
P == INSTANCE Pools WITH Add <- IAdd, Sub <- ISub, Mul <- IMul, Div <- IDiv, Le <- ILe, N <- INat, DecScale <- 100
F == INSTANCE Farms WITH Add <- IAdd, Sub <- ISub, Mul <- IMul, Div <- IDiv, Le <- ILe, N <- INat, DecScale <- 100

VARIABLES x, y, dx, s, f, t, ph
vars == <<x, y, dx, s, f, t, ph>>
(* the grid is unfolded one coordinate per step so that TLC's workers share the enumeration *)
Init == x \in 1..MaxR /\ y = 1 /\ dx = 1 /\ s = 1 /\ f = 0 /\ t = 0 /\ ph = 1
Next == \/ ph = 1 /\ y' \in 1..MaxR /\ ph' = 2 /\ UNCHANGED <<x, dx, s, f, t>>
        \/ ph = 2 /\ dx' \in 1..MaxD /\ ph' = 3 /\ UNCHANGED <<x, y, s, f, t>>
        \/ ph = 3 /\ s' \in 1..MaxR /\ ph' = 4 /\ UNCHANGED <<x, y, dx, f, t>>
        \/ ph = 4 /\ f' \in Fees /\ ph' = 5 /\ UNCHANGED <<x, y, dx, s, t>>
        \/ ph = 5 /\ t' \in Tols /\ ph' = 6 /\ UNCHANGED <<x, y, dx, s, f>>
Spec == Init /\ [][Next]_vars
Leaf == ph = 6

(* ---- constant product swap with total fee of f percent of which half leaves the pool (protocol + burn) ---- *)
Gross == P!CpGross(x, y, dx)
FeeAll == P!FeeOf(f, Gross)
FeeOut == P!FeeOf(f \div 2, Gross)
Net == Gross - FeeAll - FeeOut
X1 == x + dx
Y1 == y - Net - FeeOut
C03_SwapNeverDecreasesProduct == Leaf =>
  (P!CpInvariantNonDecreasing(x, y, X1, Y1))
C19_OutputBelowReserve == Leaf =>
  (Gross < y)
C04_FeesNeverExceedGross == Leaf =>
  (FeeAll + FeeOut <= Gross /\ P!FeeFloorOK(FeeAll, f, Gross))
(* swapping the proceeds straight back never returns more than was put in (zero or positive fees) *)
Back == LET g2 == P!CpGross(Y1, X1, Net) IN g2 - P!FeeOf(f, g2) - P!FeeOf(f \div 2, g2)
C03_RoundTripNeverProfits == Leaf =>
  (Back <= dx)
(* the reverse quote of constant-product pools: offering one unit more than the exact inverse suffices *)

(* ---- deposits / withdrawals: supply s, reserves (x, y), deposit (dx, dy) with dy from a second grid axis ---- *)
Dy == (dx * 7) \div 3 + 1
Minted == P!Min(P!CpShare(dx, s, x), P!CpShare(Dy, s, y))
C02_MintNeverDilutes == Leaf =>
  (P!CpValuePerLpNonDecreasing(x, y, s, x + dx, y + Dy, s + Minted))
Burn == P!Min(dx, s)
PaidX == P!WithdrawFloor(x, Burn, s)
PaidY == P!WithdrawFloor(y, Burn, s)
C02_WithdrawProRata == Leaf =>
  (P!WithdrawShareOK(PaidX, x, Burn, s) /\ P!WithdrawShareOK(PaidY, y, Burn, s))
C02_WithdrawNeverDilutes == Leaf =>
  (Burn < s => P!CpValuePerLpNonDecreasing(x, y, s, x - PaidX, y - PaidY, s - Burn))

(* ---- price protections: monotone in the tolerance; proportional deposits always pass ---- *)
C13_SwapAllowedMonotoneInTolerance == Leaf =>
  (\A t2 \in Tols : (t <= t2 /\ P!LossWithin(Net, dx, y, x, t, 0)) => P!LossWithin(Net, dx, y, x, t2, 0))
C13_AllowedAndRejectedAgreeUpToSlack == Leaf =>
  (\* nothing is both clearly within and clearly beyond the tolerance
  ~(P!LossWithin(Net, dx, y, x, t, 0) /\ ~P!LossAtLeast(Net, dx, y, x, t, 0) /\ P!LossAtLeast(Net + 2, dx, y, x, t, 0) /\ ~P!LossWithin(Net + 2, dx, y, x, t, 0)))
C13_ProportionalDepositAlwaysWithin == Leaf =>
  (\A k \in 1..3 : P!DepositRatioWithin(<<k * x, k * y>>, <<x, y>>, t))
C13_DepositMonotoneInTolerance == Leaf =>
  (\A t2 \in Tols : (t <= t2 /\ P!DepositRatioWithin(<<dx, Dy>>, <<x, y>>, t)) => P!DepositRatioWithin(<<dx, Dy>>, <<x, y>>, t2))

(* ---- emergency penalty: amt = x, duration y, remaining rem <= y, base t percent, weight between amt and 16 amt ---- *)
Rem == P!Min(dx, y)
W == P!Min(x * (1 + (s - 16 * (s \div 16))), 16 * x)
Pen == F!PenaltyAsComputed(x, y, Rem, t, W)
C09_PenaltyWithinBound == Leaf =>
  (10 * Pen <= 9 * x)
C09_PenaltyMatchesFormula == Leaf =>
  (F!PenaltyFormulaOK(Pen, x, y, Rem, t, W) \/ x < 4)
C09_PenaltyDecays == Leaf =>
  (Rem > 0 => F!PenaltyAsComputed(x, y, Rem - 1, t, W) <= Pen)
C09_ZeroWhenNothingRemains == Leaf =>
  (F!PenaltyAsComputed(x, y, 0, t, W) = 0)
C09_SharesNeverExceedPenalty == Leaf =>
  (\A n \in 1..3 : n * F!SharePerOwner(Pen, n) <= F!OwnerCommission(Pen) /\ F!OwnerCommission(Pen) <= Pen)
=============================================================================
