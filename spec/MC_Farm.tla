------------------------------ MODULE MC_Farm ------------------------------
(* The farm manager's reward mechanism, shaped like the implementation, next to the dense reference
   ledger of Farms.tla.  TLC explores every interleaving of open / expand / partial and full close /
   emergency exit / claim(until) / epoch advance for a few users and bounded histories.

   Mechanism (what the contract stores):
     hist[a][e]   sparse LP_WEIGHT_HISTORY for users and for the contract (FM), None = no entry
     cursor[u]    LAST_CLAIMED_EPOCH
     claimed      the farm's claimed_amount
   Reference (what the properties mean):
     refW[u], refTot   step functions: the weight in effect at every epoch (Farms!StepValue)

   The three Fix* constants select the repaired behaviour (TRUE, what /repo now does after the
   "fix:" commits) or the behaviour as originally shipped (FALSE), so the counterexamples that led to
   the repairs stay reproducible:  MC_Farm_shipped_*.cfg. *)
EXTENDS Integers, FiniteSets, FiniteSetsExt, Sequences, TLC, Json
CONSTANTS Users, MaxEp, MaxOps, Amts, Mults, Rate, FStart, FEnd, MaxAmt,
          FixSync, FixWeights, FixEarliest

IAdd(a, b) == a + b
ISub(a, b) == IF a >= b THEN a - b ELSE 0
IMul(a, b) == a * b
IDiv(a, b) == a \div b
ILe(a, b) == a <= b
INat(n) == n
F == INSTANCE Farms WITH Add <- IAdd, Sub <- ISub, Mul <- IMul, Div <- IDiv, Le <- ILe, N <- INat, DecScale <- 100

FM == "fm"
None == -1
Addrs == Users \cup {FM}
Eps == 0..(MaxEp + 1)

VARIABLES ops, ep, pos, hist, cursor, claimed, refW, refTot, overpaid, underpaid, failed, trace
vars == <<ops, ep, pos, hist, cursor, claimed, refW, refTot, overpaid, underpaid, failed, trace>>
View == <<ops, ep, pos, hist, cursor, claimed, refW, refTot, overpaid, underpaid, failed>>

Farm == [rate |-> Rate, start |-> FStart, end |-> FEnd]
FarmAmount == Rate * (FEnd - FStart)
(* weight of an amount under multiplier m/2: floor(a * m / 2), at least a; not additive in a *)
Weight(a, m) == LET w == (a * m) \div 2 IN IF w < a THEN a ELSE w

NoPos == [amt |-> 0, m |-> 0, open |-> FALSE]
HasOpen(u) == pos[u].open

Entries(a) == {e \in Eps : hist[a][e] # None}
Earliest(a) == CHOOSE e \in Entries(a) : \A f \in Entries(a) : e <= f
Latest(a) == CHOOSE e \in Entries(a) : \A f \in Entries(a) : e >= f
LatestW(a) == IF Entries(a) = {} THEN 0 ELSE hist[a][Latest(a)]
RECURSIVE Carry(_, _, _)
Carry(a, from, e) == IF e < from \/ e < 0 THEN 0
                     ELSE IF hist[a][e] # None THEN hist[a][e] ELSE Carry(a, from, e - 1)

Init == /\ ep = 0 /\ ops = 0
        /\ pos = [u \in Users |-> NoPos]
        /\ hist = [a \in Addrs |-> [e \in Eps |-> None]]
        /\ cursor = [u \in Users |-> None]
        /\ claimed = 0
        /\ refW = [u \in Users |-> <<>>]
        /\ refTot = <<>>
        /\ overpaid = FALSE /\ underpaid = FALSE /\ failed = FALSE
        /\ trace = <<>>

(* ---------- update_weights: both entries are written for epoch ep + 1 *)
UpdW(u, w, fill) ==
  LET uOld == LatestW(u)
      uNew == IF fill THEN uOld + w ELSE ISub(uOld, w)
      cOld == LatestW(FM)
      dec  == IF FixWeights THEN uOld - uNew ELSE w
      cNew == IF fill THEN cOld + w ELSE ISub(cOld, dec)
  IN [hist EXCEPT ![u][ep + 1] = uNew, ![FM][ep + 1] = cNew]
(* reference: the weights written now are in effect from ep + 1 on; leaving settles/forfeits the past *)
RefAfter(h, u, stillOpen) ==
  /\ refW' = [refW EXCEPT ![u] = IF stillOpen THEN F!SetFrom(@, ep + 1, h[u][ep + 1]) ELSE <<>>]
  /\ refTot' = F!SetFrom(refTot, ep + 1, h[FM][ep + 1])

(* ---------- calculate_rewards, as the code computes it *)
StartFrom(u) == IF cursor[u] # None THEN cursor[u] + 1 ELSE Earliest(u)
UW(u, e) == Carry(u, StartFrom(u) - 1, e)                    \* compute_address_weights
CWeight(u, e) ==                                             \* compute_contract_weights
  LET s == StartFrom(u) IN
  IF hist[FM][s] # None THEN Carry(FM, s, e)
  ELSE IF Entries(FM) = {} THEN 0
  ELSE IF (IF FixEarliest THEN e < Earliest(FM) ELSE e <= Earliest(FM)) THEN 0
  ELSE Carry(FM, Earliest(FM), e)
UntilF(until) == IF FEnd <= until THEN FEnd - 1 ELSE until    \* compute_farm_emissions
RewardAt(u, e) == IF e < FStart THEN 0 ELSE F!RewardShare(Rate, UW(u, e), CWeight(u, e))
ClaimEps(u, until) ==
  IF FStart > until \/ (cursor[u] # None /\ until = cursor[u]) THEN {}
  ELSE {e \in Eps : e >= StartFrom(u) /\ e <= UntilF(until)}
RECURSIVE SumR(_, _)
SumR(u, S) == IF S = {} THEN 0 ELSE LET e == CHOOSE x \in S : TRUE IN RewardAt(u, e) + SumR(u, S \ {e})
Pending(u, until) == SumR(u, ClaimEps(u, until))
(* what the user is owed according to the dense ledger *)
RefFrom(u) == IF cursor[u] = None THEN 0 ELSE cursor[u] + 1
RefOwed(u, until) == IF cursor[u] # None /\ until = cursor[u] THEN 0
                     ELSE F!FarmOwes(Farm, refW[u], refTot, RefFrom(u), until)

(* ---------- sync_address_lp_weight_history(until, save) *)
Sync(h, u, until, save) ==
  IF Entries(u) = {} THEN h
  ELSE LET lo == Earliest(u)
           hi == IF FixSync /\ save THEN (IF Latest(u) < until THEN Latest(u) ELSE until) ELSE Latest(u)
           inEff == IF FixSync THEN (IF \E e \in Entries(u) : e <= until THEN Carry(u, 0, until) ELSE None)
                    ELSE LatestW(u)
           cleared == [h EXCEPT ![u] = [e \in Eps |-> IF e >= lo /\ e <= hi THEN None ELSE h[u][e]]]
       IN IF save /\ inEff # None THEN [cleared EXCEPT ![u][until] = inEff] ELSE cleared

Log(op) == trace' = Append(trace, op)

Open(u, a, m) ==
  /\ ~HasOpen(u)
  /\ pos' = [pos EXCEPT ![u] = [amt |-> a, m |-> m, open |-> TRUE]]
  /\ LET h == UpdW(u, Weight(a, m), TRUE) IN hist' = h /\ RefAfter(h, u, TRUE)
  /\ Log([op |-> "open", u |-> u, a |-> a, m |-> m])
  /\ UNCHANGED <<ep, cursor, claimed, overpaid, underpaid, failed>>

Expand(u, a) ==
  /\ HasOpen(u) /\ pos[u].amt + a <= MaxAmt
  /\ pos' = [pos EXCEPT ![u].amt = @ + a]
  /\ LET h == UpdW(u, Weight(a, pos[u].m), TRUE) IN hist' = h /\ RefAfter(h, u, TRUE)
  /\ Log([op |-> "expand", u |-> u, a |-> a])
  /\ UNCHANGED <<ep, cursor, claimed, overpaid, underpaid, failed>>

(* close_position: refused while rewards are pending (validate_no_pending_rewards); full or partial *)
Close(u, a) ==
  /\ HasOpen(u) /\ a <= pos[u].amt
  /\ Pending(u, ep) = 0
  /\ LET full == a = pos[u].amt
         h1 == UpdW(u, Weight(a, pos[u].m), FALSE)
         h2 == IF full THEN [h1 EXCEPT ![u] = [e \in Eps |-> None]] ELSE h1     \* reconcile_user_state
     IN /\ hist' = h2
        /\ RefAfter(h1, u, ~full)
        /\ cursor' = IF full THEN [cursor EXCEPT ![u] = None] ELSE cursor
        /\ pos' = IF full THEN [pos EXCEPT ![u] = NoPos] ELSE [pos EXCEPT ![u].amt = @ - a]
  /\ Log([op |-> "close", u |-> u, a |-> a])
  /\ UNCHANGED <<ep, claimed, overpaid, underpaid, failed>>

(* emergency withdrawal of the open position: pending rewards are forfeited *)
Emergency(u) ==
  /\ HasOpen(u)
  /\ LET h1 == UpdW(u, Weight(pos[u].amt, pos[u].m), FALSE)
     IN /\ hist' = [h1 EXCEPT ![u] = [e \in Eps |-> None]]
        /\ RefAfter(h1, u, FALSE)
  /\ cursor' = [cursor EXCEPT ![u] = None]
  /\ pos' = [pos EXCEPT ![u] = NoPos]
  /\ Log([op |-> "emergency", u |-> u])
  /\ UNCHANGED <<ep, claimed, overpaid, underpaid, failed>>

Claim(u, until) ==
  /\ HasOpen(u) /\ until <= ep
  /\ (cursor[u] # None => until >= cursor[u])
  /\ LET amt == Pending(u, until)
         owed == RefOwed(u, until)
         exhausted == \/ claimed + amt > FarmAmount
                      \/ \E e \in ClaimEps(u, until) : RewardAt(u, e) + claimed > FarmAmount
     IN IF exhausted
        THEN /\ failed' = TRUE
             /\ Log([op |-> "claim", u |-> u, until |-> until, paid |-> -1])
             /\ UNCHANGED <<ep, pos, hist, cursor, claimed, overpaid, underpaid, refW, refTot>>
        ELSE /\ claimed' = claimed + amt
             /\ overpaid' = (overpaid \/ amt > owed)
             /\ underpaid' = (underpaid \/ amt < owed)
             /\ hist' = Sync(hist, u, until, TRUE)
             /\ cursor' = [cursor EXCEPT ![u] = until]
             /\ Log([op |-> "claim", u |-> u, until |-> until, paid |-> amt])
             /\ UNCHANGED <<ep, pos, refW, refTot, failed>>

Advance == /\ ep < MaxEp /\ ep' = ep + 1
           /\ Log([op |-> "advance"])
           /\ UNCHANGED <<ops, pos, hist, cursor, claimed, refW, refTot, overpaid, underpaid, failed>>

UntilChoices(u) ==
  {t \in 0..ep : \/ t = ep \/ t + 1 = ep
                 \/ (cursor[u] # None /\ (t = cursor[u] \/ t = cursor[u] + 1))
                 \/ (Entries(u) # {} /\ t + 1 = Earliest(u))
                 \/ t = 0}
Next == \/ Advance
        \/ /\ ops < MaxOps /\ ops' = ops + 1
           /\ \E u \in Users : \/ \E a \in Amts, m \in Mults : Open(u, a, m)
                               \/ \E a \in Amts : Expand(u, a)
                               \/ \E a \in Amts : Close(u, a)
                               \/ Close(u, pos[u].amt)
                               \/ Emergency(u)
                               \/ \E t \in UntilChoices(u) : Claim(u, t)
Spec == Init /\ [][Next]_vars

(* ---------- properties *)
C06_NoOverpay == ~overpaid
C06_NoStarvation == ~failed
C07_ExactShare == ~underpaid
C06_NeverBeyondFunds == claimed <= FarmAmount /\ claimed <= Rate * F!EmittedEpochs(Farm, ep)
SumU(S, f(_)) == FoldSet(LAMBDA u, acc : f(u) + acc, 0, S)
(* sparse histories: the contract's carried total covers the users' carried weights at every epoch *)
C10_TotalCoversUsers ==
  \A e \in 0..(ep + 1) : Carry(FM, 0, e) >= SumU(Users, LAMBDA u : Carry(u, 0, e))
(* dense ledger: every epoch's shares add up to at most the emission *)
C06_EpochBudget ==
  \A e \in 0..(ep + 1) : F!StepValue(refTot, e) >= SumU(Users, LAMBDA u : F!StepValue(refW[u], e))
C10_NoWeightWithoutPosition == \A u \in Users : ~HasOpen(u) => Entries(u) = {}
C06_CursorMonotone == [][\A u \in Users : (cursor[u] # None /\ cursor'[u] # None) => cursor'[u] >= cursor[u]]_vars
C10_EffectNextEpoch == [][\A u \in Users : \A e \in Eps : (e <= ep /\ hist'[FM][e] # hist[FM][e]) => FALSE]_vars
(* pending rewards computed by the mechanism equal the dense ledger's at every state (Rewards query) *)
C07_QueryEqualsReference == \A u \in Users : HasOpen(u) => Pending(u, ep) = RefOwed(u, ep)

Sym == Permutations(Users)
(* behaviours for replay on the real contracts: one JSON line per complete history *)
Done == ops = MaxOps /\ ep = MaxEp
PrintReplay == Done => PrintT(<<"REPLAY", ToJson(trace)>>)
=============================================================================
