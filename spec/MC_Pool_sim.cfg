CONSTANTS
  MaxOps = 10
  SwapAmts = {100, 333, 777}
  BurnAmts = {1000, 3333}
  MinLiqM = 1000
  Scale = 1000
  Protect = TRUE
SPECIFICATION Spec
INVARIANT C01_Backed
INVARIANT C01_LpHeldIsLockedMinimum
INVARIANT C02_SupplyFloor
INVARIANT C02_SupplyIsSumOfHoldings
INVARIANT C04_Conservation
INVARIANT C04_NoNegative
INVARIANT PrintReplay
CHECK_DEADLOCK FALSE
