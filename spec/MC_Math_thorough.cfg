CONSTANTS
  MaxR = 22
  MaxD = 22
  Fees = {0, 3, 20}
  Tols = {0, 1, 10, 50, 100}
SPECIFICATION Spec
INVARIANT C03_SwapNeverDecreasesProduct
INVARIANT C19_OutputBelowReserve
INVARIANT C04_FeesNeverExceedGross
INVARIANT C03_RoundTripNeverProfits
INVARIANT C02_MintNeverDilutes
INVARIANT C02_WithdrawProRata
INVARIANT C02_WithdrawNeverDilutes
INVARIANT C13_SwapAllowedMonotoneInTolerance
INVARIANT C13_ProportionalDepositAlwaysWithin
INVARIANT C13_DepositMonotoneInTolerance
INVARIANT C09_PenaltyWithinBound
INVARIANT C09_PenaltyMatchesFormula
INVARIANT C09_PenaltyDecays
INVARIANT C09_ZeroWhenNothingRemains
INVARIANT C09_SharesNeverExceedPenalty
CHECK_DEADLOCK FALSE
