---------------------------- MODULE PoolLemmas ----------------------------
(* Unbounded arithmetic facts behind the rounding directions of the pool manager (C02, C03, C04), proved with TLAPS.
   MC_Math checks the same statements by enumeration on a small grid, Trace_Pool checks them on the contract's numbers. *)
EXTENDS Integers, TLAPS

LEMMA DivDef == ASSUME NEW a \in Nat, NEW d \in Nat, d > 0
                PROVE  /\ a = d * (a \div d) + (a % d) /\ 0 <= a % d /\ a % d < d
                       /\ (a \div d) \in Nat /\ (a % d) \in Nat
  BY Z3

(* floor(a/d)*d <= a < (floor(a/d)+1)*d *)
LEMMA FloorBounds == ASSUME NEW a \in Nat, NEW d \in Nat, d > 0
                     PROVE  /\ (a \div d) * d <= a /\ a < ((a \div d) + 1) * d /\ (a \div d) \in Nat
<1> DEFINE q == a \div d
<1>1. /\ a = d * q + (a % d) /\ 0 <= a % d /\ a % d < d /\ q \in Nat /\ (a % d) \in Nat BY DivDef
<1>2. q * d = d * q /\ (q + 1) * d = d * q + d BY <1>1, Z3
<1> QED BY <1>1, <1>2

(* a withdrawal of b shares out of S pays floor(R*b/S): never more than the pro-rata share *)
THEOREM WithdrawNeverOverpays ==
  ASSUME NEW R \in Nat, NEW b \in Nat, NEW S \in Nat, S > 0
  PROVE  ((R * b) \div S) * S <= R * b
<1>1. R * b \in Nat OBVIOUS
<1> QED BY <1>1, FloorBounds

(* constant product swap: out = floor(y*dx/(x+dx)) keeps (x+dx)*(y-out) >= x*y *)
THEOREM CpSwapKeepsProduct ==
  ASSUME NEW x \in Nat, NEW y \in Nat, NEW dx \in Nat, x > 0
  PROVE  LET out == (y * dx) \div (x + dx) IN /\ out <= y /\ (x + dx) * (y - out) >= x * y
<1> DEFINE n == y * dx
<1> DEFINE d == x + dx
<1> DEFINE out == n \div d
<1>1. n \in Nat /\ d \in Nat /\ d > 0 OBVIOUS
<1>2. out * d <= n /\ out \in Nat BY <1>1, FloorBounds
<1>3. d * (y - out) = d * y - out * d BY <1>2, Z3
<1>4. d * y = x * y + n BY Z3
<1>5. d * (y - out) >= x * y BY <1>2, <1>3, <1>4
<1>6. out <= y
   <2>1. CASE out <= y BY <2>1
   <2>2. CASE out > y
      <3>1. out >= y + 1 BY <2>2, <1>2
      <3>2. out * d >= (y + 1) * d BY <3>1, <1>1, <1>2, Z3
      <3>3. (y + 1) * d = y * x + y * dx + d BY Z3
      <3>4. y * x >= 0 BY Z3
      <3> QED BY <3>2, <3>3, <3>4, <1>2, <1>1
   <2> QED BY <2>1, <2>2
<1> QED BY <1>5, <1>6

(* a fee floor(share*gross/10^18) with share <= 10^18 never exceeds gross *)
THEOREM FeeAtMostGross ==
  ASSUME NEW share \in Nat, NEW gross \in Nat, NEW one \in Nat, one > 0, share <= one
  PROVE  (share * gross) \div one <= gross
<1> DEFINE f == (share * gross) \div one
<1>1. share * gross \in Nat OBVIOUS
<1>2. f * one <= share * gross /\ f \in Nat BY <1>1, FloorBounds
<1>3. share * gross <= one * gross BY Z3
<1>4. f * one <= gross * one BY <1>2, <1>3, Z3
<1>5. CASE f <= gross BY <1>5
<1>6. CASE f > gross
   <2>1. f >= gross + 1 BY <1>6, <1>2
   <2>2. f * one >= (gross + 1) * one BY <2>1, <1>2, Z3
   <2>3. (gross + 1) * one = gross * one + one BY Z3
   <2> QED BY <2>2, <2>3, <1>4
<1> QED BY <1>5, <1>6

(* proportional mint m = floor(d*S/R) keeps the per-share claim on that reserve: (R+d)*S >= R*(S+m) *)
THEOREM MintNeverDilutes ==
  ASSUME NEW R \in Nat, NEW d \in Nat, NEW S \in Nat, R > 0
  PROVE  (R + d) * S >= R * (S + ((d * S) \div R))
<1> DEFINE m == (d * S) \div R
<1>1. d * S \in Nat OBVIOUS
<1>2. m * R <= d * S /\ m \in Nat BY <1>1, FloorBounds
<1>3. (R + d) * S = R * S + d * S BY Z3
<1>4. R * (S + m) = R * S + m * R BY <1>2, Z3
<1> QED BY <1>2, <1>3, <1>4
=============================================================================
