---------------------------- MODULE EpochLemmas ----------------------------
(* Unbounded arithmetic facts behind C18, proved with TLAPS (the TLC model MC_Epoch checks the same statements
   on a small domain; Trace_Epoch checks them on the real contract's answers). Integers are TLA+'s unbounded
   integers here: overflow behaviour is covered by Epochs!Representable, not by these lemmas. *)
EXTENDS Integers, TLAPS

Id(g, d, now) == (now - g) \div d
Start(g, d, id) == g + id * d

LEMMA DivDef == ASSUME NEW a \in Int, NEW d \in Nat, d > 0
                PROVE  /\ a = d * (a \div d) + (a % d) /\ 0 <= a % d /\ a % d < d
                       /\ (a \div d) \in Int /\ (a % d) \in Int
  BY Z3

LEMMA MulDist == ASSUME NEW d \in Int, NEW q \in Int PROVE d * (q + 1) = d * q + d
  BY Z3
LEMMA MulMono == ASSUME NEW d \in Nat, d > 0, NEW x \in Int, NEW y \in Int, x < y PROVE d * x + d <= d * y
  BY Z3T(30)
LEMMA MulCancel == ASSUME NEW d \in Nat, d > 0, NEW x \in Int, NEW y \in Int, d * x < d * y + d PROVE x < y + 1
<1>1. CASE x < y + 1 BY <1>1
<1>2. CASE ~(x < y + 1)
   <2>1. y < x BY <1>2
   <2>2. d * y + d <= d * x BY <2>1, MulMono
   <2> QED BY <2>2
<1> QED BY <1>1, <1>2

(* the quotient is the unique q with d*q <= a < d*(q+1) *)
LEMMA DivUnique == ASSUME NEW a \in Int, NEW d \in Nat, d > 0, NEW q \in Int, d * q <= a, a < d * (q + 1)
                   PROVE  a \div d = q
<1> DEFINE p == a \div d
<1>1. /\ a = d * p + (a % d) /\ 0 <= a % d /\ a % d < d /\ p \in Int /\ (a % d) \in Int BY DivDef
<1>2. d * (q + 1) = d * q + d BY MulDist
<1>3. d * q < d * p + d BY <1>1
<1>4. d * p < d * q + d BY <1>1, <1>2
<1>5. q < p + 1 BY <1>3, <1>1, MulCancel
<1>6. p < q + 1 BY <1>4, <1>1, MulCancel
<1> QED BY <1>5, <1>6, <1>1

(* now lies in [start(current), start(current + 1)) *)
THEOREM Partition ==
  ASSUME NEW g \in Nat, NEW d \in Nat, d > 0, NEW now \in Nat, now >= g
  PROVE  /\ Start(g, d, Id(g, d, now)) <= now
         /\ now < Start(g, d, Id(g, d, now) + 1)
<1> DEFINE a == now - g
<1> DEFINE q == a \div d
<1>1. a \in Int /\ a >= 0 OBVIOUS
<1>2. /\ a = d * q + (a % d) /\ 0 <= a % d /\ a % d < d /\ q \in Int /\ (a % d) \in Int
      BY <1>1, DivDef
<1>3. d * q <= a /\ a < d * q + d BY <1>2
<1>4. q * d = d * q /\ (q + 1) * d = d * q + d BY <1>2, Z3
<1> QED BY <1>3, <1>4 DEF Id, Start

(* ids never decrease as time advances *)
THEOREM Monotone ==
  ASSUME NEW g \in Nat, NEW d \in Nat, d > 0, NEW t1 \in Nat, NEW t2 \in Nat, g <= t1, t1 <= t2
  PROVE  Id(g, d, t1) <= Id(g, d, t2)
<1> DEFINE a1 == t1 - g
<1> DEFINE a2 == t2 - g
<1> DEFINE q1 == a1 \div d
<1> DEFINE q2 == a2 \div d
<1>1. a1 \in Int /\ a2 \in Int /\ a1 <= a2 OBVIOUS
<1>2. /\ a1 = d * q1 + (a1 % d) /\ 0 <= a1 % d /\ a1 % d < d /\ q1 \in Int /\ (a1 % d) \in Int BY <1>1, DivDef
<1>3. /\ a2 = d * q2 + (a2 % d) /\ 0 <= a2 % d /\ a2 % d < d /\ q2 \in Int /\ (a2 % d) \in Int BY <1>1, DivDef
<1>4. d * q1 < d * q2 + d BY <1>1, <1>2, <1>3
<1>5. q1 < q2 + 1 BY <1>4, <1>2, <1>3, MulCancel
<1> QED BY <1>5, <1>2, <1>3 DEF Id

(* exactly one more every `duration` seconds *)
THEOREM OnePerDuration ==
  ASSUME NEW g \in Nat, NEW d \in Nat, d > 0, NEW now \in Nat, now >= g
  PROVE  Id(g, d, now + d) = Id(g, d, now) + 1
<1> DEFINE a == now - g
<1> DEFINE q == a \div d
<1>1. a \in Int OBVIOUS
<1>2. /\ a = d * q + (a % d) /\ 0 <= a % d /\ a % d < d /\ q \in Int /\ (a % d) \in Int BY <1>1, DivDef
<1>3. (now + d) - g = a + d OBVIOUS
<1>4a. d * (q + 1) = d * q + d /\ d * ((q + 1) + 1) = d * (q + 1) + d BY <1>2, MulDist
<1>4. d * (q + 1) <= a + d /\ a + d < d * ((q + 1) + 1) BY <1>2, <1>4a
<1>5. (a + d) \div d = q + 1 BY <1>1, <1>2, <1>4, DivUnique
<1> QED BY <1>3, <1>5 DEF Id

(* one second later the id is the same or one larger *)
THEOREM StepsByAtMostOne ==
  ASSUME NEW g \in Nat, NEW d \in Nat, d > 0, NEW now \in Nat, now >= g
  PROVE  Id(g, d, now + 1) \in {Id(g, d, now), Id(g, d, now) + 1}
<1> DEFINE a == now - g
<1> DEFINE q == a \div d
<1> DEFINE r == a % d
<1>1. a \in Int OBVIOUS
<1>2. /\ a = d * q + r /\ 0 <= r /\ r < d /\ q \in Int /\ r \in Int BY <1>1, DivDef
<1>3. (now + 1) - g = a + 1 OBVIOUS
<1>0. d * (q + 1) = d * q + d /\ d * ((q + 1) + 1) = d * (q + 1) + d BY <1>2, MulDist
<1> HIDE DEF r, q
<1>4. CASE r + 1 < d
   <2>1. d * q <= a + 1 /\ a + 1 < d * (q + 1) BY <1>2, <1>4, <1>0
   <2>2. (a + 1) \div d = q BY <1>1, <1>2, <2>1, DivUnique
   <2> QED BY <1>3, <2>2 DEF Id, q
<1>5. CASE r + 1 = d
   <2>1. d * (q + 1) <= a + 1 /\ a + 1 < d * ((q + 1) + 1) BY <1>2, <1>5, <1>0
   <2>2. (a + 1) \div d = q + 1 BY <1>1, <1>2, <2>1, DivUnique
   <2> QED BY <1>3, <2>2 DEF Id, q
<1> QED BY <1>2, <1>4, <1>5
=============================================================================
