---------------------------- MODULE FarmLemmas ----------------------------
(* Unbounded arithmetic facts behind the farm manager's budgets (C06, C07, C09), proved with TLAPS.
   MC_Farm / MC_FarmLife check the same statements on small domains, Trace_Farm on the contract's numbers. *)
EXTENDS Integers, TLAPS

LEMMA DivDef == ASSUME NEW a \in Nat, NEW d \in Nat, d > 0
                PROVE  /\ a = d * (a \div d) + (a % d) /\ 0 <= a % d /\ a % d < d
                       /\ (a \div d) \in Nat /\ (a % d) \in Nat
  BY Z3
LEMMA FloorBounds == ASSUME NEW a \in Nat, NEW d \in Nat, d > 0
                     PROVE  /\ (a \div d) * d <= a /\ a < ((a \div d) + 1) * d /\ (a \div d) \in Nat
<1> DEFINE q == a \div d
<1>1. /\ a = d * q + (a % d) /\ 0 <= a % d /\ a % d < d /\ q \in Nat /\ (a % d) \in Nat BY DivDef
<1>2. q * d = d * q /\ (q + 1) * d = d * q + d BY <1>1, Z3
<1> QED BY <1>1, <1>2
LEMMA Cancel == ASSUME NEW a \in Nat, NEW b \in Nat, NEW d \in Nat, d > 0, a * d <= b * d PROVE a <= b
<1>1. CASE a <= b BY <1>1
<1>2. CASE a > b
   <2>1. a >= b + 1 BY <1>2
   <2>2. a * d >= (b + 1) * d BY <2>1, Z3
   <2>3. (b + 1) * d = b * d + d BY Z3
   <2> QED BY <2>2, <2>3
<1> QED BY <1>1, <1>2

(* one user's share floor(E*w/W) of an epoch's emission E never exceeds E when w <= W *)
THEOREM ShareWithinEmission ==
  ASSUME NEW E \in Nat, NEW w \in Nat, NEW W \in Nat, W > 0, w <= W
  PROVE  (E * w) \div W <= E
<1> DEFINE s == (E * w) \div W
<1>1. E * w \in Nat OBVIOUS
<1>2. s * W <= E * w /\ s \in Nat BY <1>1, FloorBounds
<1>3. E * w <= E * W BY Z3
<1> QED BY <1>2, <1>3, Cancel

(* two users whose weights add up to at most the total never receive more than the emission together *)
THEOREM TwoSharesWithinEmission ==
  ASSUME NEW E \in Nat, NEW a \in Nat, NEW b \in Nat, NEW W \in Nat, W > 0, a + b <= W
  PROVE  (E * a) \div W + (E * b) \div W <= E
<1> DEFINE sa == (E * a) \div W
<1> DEFINE sb == (E * b) \div W
<1>1. E * a \in Nat /\ E * b \in Nat OBVIOUS
<1>2. sa * W <= E * a /\ sa \in Nat BY <1>1, FloorBounds
<1>3. sb * W <= E * b /\ sb \in Nat BY <1>1, FloorBounds
<1>4. (sa + sb) * W = sa * W + sb * W BY <1>2, <1>3, Z3
<1>5. E * a + E * b = E * (a + b) BY Z3
<1>6. E * (a + b) <= E * W BY Z3
<1>7. (sa + sb) * W <= E * W BY <1>2, <1>3, <1>4, <1>5, <1>6
<1> QED BY <1>7, <1>2, <1>3, Cancel

(* a farm that emits floor(A/n) per epoch for n epochs never emits more than its asset A *)
THEOREM EmissionWithinAsset ==
  ASSUME NEW A \in Nat, NEW n \in Nat, n > 0
  PROVE  (A \div n) * n <= A
  BY FloorBounds

(* emergency penalty: commission floor(pen*c/one) with c <= one, the rest split evenly among k farm owners:
   everything handed out is covered by the penalty *)
THEOREM PenaltySplitCovered ==
  ASSUME NEW pen \in Nat, NEW c \in Nat, NEW one \in Nat, one > 0, c <= one, NEW k \in Nat, k > 0
  PROVE  LET com == (pen * c) \div one
             rest == pen - com
         IN /\ com <= pen /\ (rest \div k) * k + com <= pen
<1> DEFINE com == (pen * c) \div one
<1> DEFINE rest == pen - com
<1>1. pen * c \in Nat OBVIOUS
<1>2. com * one <= pen * c /\ com \in Nat BY <1>1, FloorBounds
<1>3. pen * c <= pen * one BY Z3
<1>4. com <= pen BY <1>2, <1>3, Cancel
<1>5. rest \in Nat BY <1>4, <1>2
<1>6. (rest \div k) * k <= rest /\ (rest \div k) \in Nat BY <1>5, FloorBounds
<1>7. (rest \div k) * k \in Nat BY <1>6
<1>8. (rest \div k) * k + com <= pen BY <1>4, <1>6, <1>7, <1>2
<1> QED BY <1>4, <1>8
=============================================================================
