SPECIFICATION Spec
INVARIANT C20_FailedTxIsNoOp
INVARIANT C20_OnlyRefundsAreSwallowed
INVARIANT C20_SwallowedRefundRemovesOnlyItself
INVARIANT C20_FaultInsideNonRefundAborts
INVARIANT C14_SingleAssetAllOrNothing
INVARIANT C20_NoFaultCommitsEverything
CHECK_DEADLOCK FALSE
