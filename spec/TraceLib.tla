------------------------------ MODULE TraceLib ------------------------------
(* Shared plumbing of the trace specifications (DESIGN 2.5). A guard is a record
   [a |-> applicable, v |-> holds]; a guard that is applicable and does not hold produces a TAG line
   carrying the guard's name, whose prefix is the property it serves. *)
EXTENDS Naturals, Sequences, FiniteSets, TLC

G(a, v) == IF a THEN [a |-> TRUE, v |-> v] ELSE [a |-> FALSE, v |-> TRUE]
Must(v) == [a |-> TRUE, v |-> v]
(* a guard whose failure matches the trigger of a recorded finding (known_findings.json): kid names the
   finding when its trigger and residual bound hold for this event, "" otherwise *)
GK(a, v, kid) == IF a THEN (IF v THEN [a |-> TRUE, v |-> TRUE] ELSE [a |-> TRUE, v |-> FALSE, k |-> kid]) ELSE [a |-> FALSE, v |-> TRUE]
KnownId(g) == IF "k" \in DOMAIN g THEN g.k ELSE ""
NoGuards == [x \in {} |-> Must(TRUE)]
Bad(gs) == {k \in DOMAIN gs : gs[k].a /\ ~gs[k].v}
App(gs) == {k \in DOMAIN gs : gs[k].a}
Report(i, sc, gs) == /\ \A k \in Bad(gs) : IF KnownId(gs[k]) = "" THEN PrintT(<<"TAG", i, sc, k>>)
                                                 ELSE PrintT(<<"KNOWN", i, sc, k, KnownId(gs[k])>>)
                     /\ \A k \in App(gs) : PrintT(<<"A", i, k>>)
(* per guard: <<evaluated, applicable, failed>> *)
Count(cnt, gs) ==
  [k \in (DOMAIN cnt) \cup (DOMAIN gs) |->
     LET old == IF k \in DOMAIN cnt THEN cnt[k] ELSE <<0, 0, 0>>
     IN IF k \in DOMAIN gs
        THEN <<old[1] + 1, old[2] + (IF gs[k].a THEN 1 ELSE 0), old[3] + (IF gs[k].a /\ ~gs[k].v THEN 1 ELSE 0)>>
        ELSE old]
PrintCounts(cnt) == \A k \in DOMAIN cnt : PrintT(<<"EVAL", k, cnt[k][1], cnt[k][2], cnt[k][3]>>)
=============================================================================
