"""Which models, drivers and trace specifications decide which property."""
import os, json, re, subprocess, random, hashlib

ROOT = os.path.dirname(os.path.dirname(os.path.abspath(__file__)))
SPEC = os.path.join(ROOT, "spec")
CP = f"{SPEC}/classes:/opt/veriftools/tla/tla2tools.jar:/opt/veriftools/tla/CommunityModules-deps.jar"

MODELS = {
    "MC_Epoch": {"module": "MC_Epoch", "quick": "MC_Epoch.cfg", "thorough": "MC_Epoch_thorough.cfg",
                 "workers": 4, "timeout_quick": 120, "timeout_thorough": 900,
                 "sample": "every (genesis, duration) in the config's ranges, time advancing second by second, "
                           "owner/non-owner config updates; C18 invariants and action properties"},
    "MC_Farm": {"module": "MC_Farm", "quick": "MC_Farm.cfg", "thorough": "MC_Farm_thorough.cfg",
                "workers": 10, "timeout_quick": 600, "timeout_thorough": 3000,
                "sample": "all interleavings of open/expand/partial+full close/emergency/claim(until)/advance, 2 users, "
                          "implementation-shaped sparse weight history vs dense reference ledger"},
    "MC_FarmLife": {"module": "MC_FarmLife", "quick": "MC_FarmLife.cfg", "thorough": "MC_FarmLife_thorough.cfg",
                    "workers": 10, "timeout_quick": 600, "timeout_thorough": 3000,
                    "sample": "farm create/expand/close/auto-close, positions create(for)/expand/close(partial)/withdraw/emergency, "
                              "claims, swallowed refunds, reward denom = LP denom; custody, conservation, limits"},
    "MC_Auth": {"module": "MC_Auth", "quick": "MC_Auth.cfg", "thorough": "MC_Auth.cfg", "workers": 1, "timeout_quick": 300,
                "sample": "complete graph: 4 contracts x reachable ownership states (incl. pending with/without deadline, expired, transferred, "
                          "renounced) x every privileged message variant x 5 sender roles x funds attached or not"},
    "MC_Exec": {"module": "MC_Exec", "quick": "MC_Exec.cfg", "thorough": "MC_Exec.cfg", "workers": 2, "timeout_quick": 120,
                "sample": "CosmWasm dispatch/rollback semantics (Cw.tla) over the response shapes of 8 entry points, a failure injected at every dispatch"},
    "MC_Math": {"module": "MC_Math", "quick": "MC_Math.cfg", "thorough": "MC_Math_thorough.cfg", "workers": 8, "timeout_quick": 300, "timeout_thorough": 1800,
                "sample": "formula lemmas on a grid (reserves, offer, supply, fee, tolerance): product monotone, round trip never profits, mint/withdraw "
                          "never dilute, tolerance predicates monotone, proportional deposits accepted, penalty bound/formula/decay/shares"},
    "MC_Stable": {"module": "MC_Stable", "quick": "MC_Stable.cfg", "thorough": "MC_Stable_thorough.cfg", "workers": 6, "timeout_quick": 300, "timeout_thorough": 1800,
                  "sample": "the stableswap oracle itself on a grid of two-asset pools (reserves, amplification, offer): RootFloor is the floor of the root, "
                            "accepted outputs form a non-empty interval that is as narrow as the tolerance once balances are scaled, accepted outputs keep the "
                            "invariant and a round trip never profits"},
    "MC_AuthObj": {"module": "MC_AuthObj", "quick": "MC_AuthObj.cfg", "thorough": "MC_AuthObj.cfg", "workers": 1, "timeout_quick": 120,
                   "sample": "complete graph of farm expand/close and position create-for/expand/close/withdraw/emergency x 5 sender roles x every state of (farm, position)"},
    "MC_Pool": {"module": "MC_Pool", "quick": "MC_Pool.cfg", "thorough": "MC_Pool_thorough.cfg",
                "workers": 10, "timeout_quick": 600, "timeout_thorough": 3000,
                "sample": "two constant-product pools sharing a denom, exact integer formulas with fees; deposits, single-asset "
                          "deposits as swap;deposit composition, withdrawals, swaps, two-hop routes incl. a round trip, donations, toggles"},
}


def farm_behaviours(seed, tier, tdir):
    """TLC -simulate on MC_Farm prints complete behaviours; they are replayed on the real contracts."""
    n = 400 if tier == "thorough" else 60
    num = 4000 if tier == "thorough" else 300
    cmd = ["timeout", "600", "java", "-XX:+UseParallelGC", "-Xmx4g", "-cp", CP, "tlc2.TLC", "-workers", "1",
           "-simulate", f"num={num}", "-depth", "40", "-seed", str(seed), "-metadir", os.path.join(tdir, "sim"),
           "-cleanup", "-noGenerateSpecTE", "-config", "MC_Farm_sim.cfg", "MC_Farm.tla"]
    p = subprocess.run(cmd, cwd=SPEC, capture_output=True, text=True)
    seen, out = set(), []
    for l in p.stdout.splitlines():
        if l.startswith('<<"REPLAY", '):
            j = json.loads(l.strip()[len('<<"REPLAY", '):-2])
            if j not in seen:
                seen.add(j)
                out.append(j)
    if "is violated" in p.stdout or not out:
        raise RuntimeError("MC_Farm simulation failed or violated an invariant:\n" + p.stdout[-3000:])
    random.Random(seed).shuffle(out)
    path = os.path.join(tdir, "farm_behaviours.ndjson")
    open(path, "w").write("\n".join(out[:n]) + "\n")
    m = re.search(r"(\d+) states checked, (\d+) traces generated", p.stdout)
    return {"args": ["--behaviours", path, "--rate", "1260", "--fstart", "1", "--fend", "5"],
            "info": {"behaviours_distinct": len(seen), "replayed": min(n, len(out)),
                     "sim_states": int(m.group(1)) if m else 0, "sample_behaviour": json.loads(out[0])}}


def pool_behaviours(seed, tier, tdir):
    """TLC -simulate on MC_Pool (MC_Pool_sim.cfg: amounts scaled by 1000, minimum liquidity 1000) prints complete
    behaviours with the state predicted after every step; they are replayed on the real contracts."""
    n = 300 if tier == "thorough" else 40
    num = 1500 if tier == "thorough" else 200
    cmd = ["timeout", "600", "java", "-XX:+UseParallelGC", "-Xmx4g", "-cp", CP, "tlc2.TLC", "-workers", "1",
           "-simulate", f"num={num}", "-depth", "40", "-seed", str(seed), "-metadir", os.path.join(tdir, "simpool"),
           "-cleanup", "-noGenerateSpecTE", "-config", "MC_Pool_sim.cfg", "MC_Pool.tla"]
    p = subprocess.run(cmd, cwd=SPEC, capture_output=True, text=True)
    seen, out = set(), []
    for l in p.stdout.splitlines():
        if l.startswith('<<"REPLAY", '):
            j = json.loads(l.strip()[len('<<"REPLAY", '):-2])
            if j not in seen:
                seen.add(j)
                out.append(j)
    if "is violated" in p.stdout or not out:
        raise RuntimeError("MC_Pool simulation failed or violated an invariant:\n" + p.stdout[-3000:])
    random.Random(seed).shuffle(out)
    path = os.path.join(tdir, "pool_behaviours.ndjson")
    open(path, "w").write("\n".join(out[:n]) + "\n")
    m = re.search(r"(\d+) states checked, (\d+) traces generated", p.stdout)
    sample = json.loads(out[0])
    return {"args": ["--behaviours", path],
            "info": {"behaviours_distinct": len(seen), "replayed": min(n, len(out)), "sim_states": int(m.group(1)) if m else 0,
                     "sample_behaviour": [{k: v for k, v in step.items() if k != "post"} for step in sample]}}


def auth_edges(seed, tier, tdir):
    """TLC enumerates the complete authorisation graph of MC_Auth; every edge is replayed."""
    cmd = ["timeout", "300", "java", "-XX:+UseParallelGC", "-Xmx4g", "-cp", CP, "tlc2.TLC", "-workers", "1",
           "-metadir", os.path.join(tdir, "auth"), "-cleanup", "-noGenerateSpecTE", "-config", "MC_Auth.cfg", "MC_Auth.tla"]
    p = subprocess.run(cmd, cwd=SPEC, capture_output=True, text=True)
    out = [json.loads(l.strip()[len('<<"EDGE", '):-2]) for l in p.stdout.splitlines() if l.startswith('<<"EDGE", ')]
    m = re.search(r"(\d+) states generated, (\d+) distinct states found", p.stdout)
    if "violated" in p.stdout or "Error" in p.stdout or not out or not m:
        raise RuntimeError("MC_Auth failed:\n" + p.stdout[-3000:])
    # second graph: farm- and position-level authorisation
    cmd2 = cmd[:-2] + ["MC_AuthObj.cfg", "MC_AuthObj.tla"]
    p2 = subprocess.run(cmd2, cwd=SPEC, capture_output=True, text=True)
    out2 = [json.loads(l.strip()[len('<<"EDGE", '):-2]) for l in p2.stdout.splitlines() if l.startswith('<<"EDGE", ')]
    if "violated" in p2.stdout or "Error" in p2.stdout or not out2:
        raise RuntimeError("MC_AuthObj failed:\n" + p2.stdout[-3000:])
    out += out2
    path = os.path.join(tdir, "auth_edges.ndjson")
    open(path, "w").write("\n".join(out) + "\n")
    return {"args": ["--edges", path],
            "info": {"edges": len(out), "states": int(m.group(2)), "transitions": int(m.group(1)), "exhaustive": True,
                     "sample_edge": json.loads(out[len(out) // 2])}}


FAMILIES = {
    "epoch": {"drivers": [{"name": "epoch", "spec": "Trace_Epoch"}]},
    "farm": {"drivers": [{"name": "farm", "spec": "Trace_Farm"},
                         {"name": "farm_replay", "spec": "Trace_Farm", "pre": farm_behaviours}]},
}

FAMILIES["auth"] = {"drivers": [{"name": "auth", "spec": "Trace_Auth", "pre": auth_edges}]}
FAMILIES["fault"] = {"drivers": [{"name": "fault", "spec": "Trace_Fault"}]}
FAMILIES["pool"] = {"drivers": [{"name": "pool", "spec": "Trace_Pool"}, {"name": "stable", "spec": "Trace_Pool"},
                                {"name": "pool_replay", "spec": "Trace_Pool", "pre": pool_behaviours}]}

PROPS = {
    "C20": {"level": "fault_enumeration", "models": ["MC_Exec"], "families": ["fault", "farm", "pool", "epoch", "auth"]},
    "C01": {"level": "model_checking", "models": ["MC_Pool"], "families": ["pool"]},
    "C02": {"level": "model_checking", "models": ["MC_Pool", "MC_Math"], "families": ["pool"], "proofs": ["proofs/PoolLemmas.tla"]},
    "C03": {"level": "model_checking", "models": ["MC_Pool", "MC_Math", "MC_Stable"], "families": ["pool"], "proofs": ["proofs/PoolLemmas.tla"]},
    "C04": {"level": "model_checking", "models": ["MC_Pool", "MC_Math"], "families": ["pool"], "proofs": ["proofs/PoolLemmas.tla"]},
    "C12": {"level": "model_checking", "models": [], "families": ["pool"]},
    "C13": {"level": "model_checking", "models": ["MC_Math"], "families": ["pool"]},
    "C14": {"level": "model_checking", "models": ["MC_Pool", "MC_Exec"], "families": ["pool", "fault"]},
    "C15": {"level": "model_checking", "models": ["MC_Auth", "MC_AuthObj"], "families": ["auth", "farm", "pool", "epoch"], "exhaustive": True,
            "assumptions": ["exhaustive refers to the ownership/config/toggle matrix of MC_Auth (every edge replayed); farm- and position-level "
                            "authorisation is judged on the farm/pool traces (C15_* guards), which are sampled"]},
    "C16": {"level": "model_checking", "models": [], "families": ["pool"]},
    "C17": {"level": "model_checking", "models": ["MC_Pool"], "families": ["pool", "auth"]},
    "C19": {"level": "model_checking", "models": ["MC_Math", "MC_Stable"], "families": ["pool"]},
    "C05": {"level": "model_checking", "models": ["MC_FarmLife"], "families": ["farm", "pool"]},
    "C06": {"level": "model_checking", "models": ["MC_Farm", "MC_FarmLife"], "families": ["farm", "fault"], "proofs": ["proofs/FarmLemmas.tla"]},
    "C07": {"level": "model_checking", "models": ["MC_Farm"], "families": ["farm", "fault"], "proofs": ["proofs/FarmLemmas.tla"]},
    "C08": {"level": "model_checking", "models": ["MC_FarmLife"], "families": ["farm", "pool"]},
    "C09": {"level": "model_checking", "models": ["MC_FarmLife", "MC_Math"], "families": ["farm", "fault"], "proofs": ["proofs/FarmLemmas.tla"]},
    "C10": {"level": "model_checking", "models": ["MC_Farm"], "families": ["farm", "pool"]},
    "C11": {"level": "model_checking", "models": ["MC_FarmLife"], "families": ["farm"]},
    "C18": {"level": "model_checking", "models": ["MC_Epoch"], "families": ["epoch"], "proofs": ["proofs/EpochLemmas.tla"]},
}
