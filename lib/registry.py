"""Which models, drivers and trace specifications decide which property."""

MODELS = {
    "MC_Epoch": {"module": "MC_Epoch", "quick": "MC_Epoch.cfg", "thorough": "MC_Epoch_thorough.cfg",
                 "workers": 4, "timeout_quick": 120, "timeout_thorough": 900,
                 "sample": "every (genesis, duration) in the config's ranges, time advancing second by second, "
                           "owner/non-owner config updates; C18 invariants and action properties"},
}

FAMILIES = {
    "epoch": {"drivers": [{"name": "epoch", "spec": "Trace_Epoch"}]},
}

PROPS = {
    "C18": {"level": "model_checking", "models": ["MC_Epoch"], "families": ["epoch"]},
}
