#!/usr/bin/env python3
"""Regenerates /verif/MANIFEST.json from lib/registry.py (run after changing the registry)."""
import json, os, sys
sys.path.insert(0, os.path.dirname(os.path.abspath(__file__)))
from registry import PROPS, MODELS, FAMILIES
ROOT = os.path.dirname(os.path.dirname(os.path.abspath(__file__)))

TEXT = {
 "C20": ("Fault enumeration on the real contracts: for every message kind in its interesting shapes (swap with three outgoing transfers, 3-hop route, first/later/locked deposits, single-asset deposits with and without lock on both pool types, withdrawal, pool creation, claim paying two denoms, emergency withdrawal paying two farm owners, farm close/expand/create closing two expired farms) the k-th internal bank/token-factory call is failed for every k; the whole-chain store digest and the projected state must equal the pre-state, a retry must equal the fault-free run, and a failing farm-close refund must be swallowed without other effect (Trace_Fault). Every validation-rejected message of all other traces must leave the projected state unchanged (C20_* guards). MC_Exec checks the dispatch/rollback model (Cw.tla) over the entry points' response shapes, cross-checked against the recorded call counts.", "3 C20"),
 "C15": ("MC_Auth enumerates the complete authorisation graph (4 contracts x every reachable ownership state x every privileged message variant x 5 sender roles x funds or not: 154 states, 16 762 edges) and MC_AuthObj the complete graph of farm expand/close and position create-for/expand/close/withdraw/emergency x 5 roles x every (farm, position) state (282 edges); every edge of both graphs is replayed on the real contracts and Trace_Auth recomputes outcome and resulting state from Ownable.tla and requires rejected edges to leave the whole chain store unchanged. The C15_* guards on the farm and pool traces judge the same rules inside random histories.", "3 C15"),
 "C01": ("MC_Pool explores all bounded interleavings of deposits, single-asset deposits, withdrawals, swaps, routes, donations and toggles over two pools sharing a denom with the custody invariant and the excess rule as an action property; Trace_Pool evaluates both on the bank balances and reserves observed after every event (accepted or rejected) of every pool trace of the real contracts, all pool types.", "3 C01"),
 "C02": ("MC_Pool checks LP accounting, supply floor and value-per-LP monotonicity for the exact constant-product formulas; Trace_Pool judges every deposit and withdrawal of the real contracts with BigNat arithmetic: mint bounded by the contribution (constant product: min of shares; stableswap: growth of the exact invariant via polynomial sign tests), pro-rata payouts within one unit, redeemability, supply floor, LP supply changed only by liquidity operations.", "3 C02"),
 "C03": ("MC_Pool checks x*y monotonicity and a no-profit round trip through a pool for the exact formulas; Trace_Pool checks on every executed swap, hop and internal swap of the real contracts that x*y (constant product) resp. the exact Curve invariant (sign test of the integer polynomial at floor(D*), balances scaled by 10^6) does not decrease. The recorded finding F7 (rounding-size decrease on stableswap) is matched by a spec-level trigger with a three-unit residual bound.", "3 C03"),
 "C04": ("MC_Pool checks token conservation incl. burns and fee routing for swaps and routes; Trace_Pool requires for every executed swap/route of the real contracts the exact expected balances of every tracked account and supply (receiver, fee collector, burn, nobody else), reserve updates, fee floors of the gross output, and the hop chain of routes.", "3 C04"),
 "C12": ("Every swap and route of the pool traces is preceded by its Simulation / SimulateSwapOperations query and TLC requires equality of return and all fee amounts with the execution (routes: when pools are pairwise distinct); ReverseSimulation on constant-product pools is followed by Simulation(offer+1) which must cover the ask. No separate exploration model: the property is a relation between two calls in the same state, decided on recorded pairs.", "3 C12"),
 "C13": ("Trace_Pool states the tolerance predicates (pool price for constant product; peg or marginal price for stableswap, permissive; belief price; minimum_receive; deposit ratio) and judges accepted and slippage-rejected swaps/routes/deposits of the real contracts; drivers bisect with the contract's own Simulation for offers straddling each tolerance. Recorded finding F5 (stableswap deposit tolerance always refuses) is matched by a spec-level trigger.", "3 C13"),
 "C14": ("MC_Pool defines the single-asset deposit as the composition SwapEffect;DepositEffect and checks residue/custody consequences over all interleavings; Trace_Pool judges every single-asset deposit of the real contracts against the composed effect computed from the quote of the half swap (reserves, fees, minted LP, odd unit), refusal on empty/larger pools, lock only for the sender, and absence of the temporary buffer in the chain store after every event.", "3 C14"),
 "C16": ("Trace_Pool judges every CreatePool of the enumerated parameter classes (asset counts, duplicates, decimals mismatch, amp 0, fee boundaries, under/over/extra funds, identifiers) under three fee configurations with exact expected balances, and checks immutability of every stored pool parameter and uniqueness of LP denoms after every event of every pool trace.", "3 C16"),
 "C17": ("MC_Pool checks that disabled swaps/deposits/withdrawals never move reserves or supply on any path incl. routes and single-asset deposits; Trace_Pool checks gating of every accepted swap, hop, deposit, single-asset deposit and withdrawal of the real contracts, that toggles change only the named flags of the named pool, and that new pools start enabled; the toggle driver walks all 8 switch states over every operation kind and path.", "3 C17"),
 "C19": ("Trace_Pool judges every stableswap quote of the real contracts against the exact invariant: bracket sign tests of the integer polynomial at floor(D*) (balances scaled by 10^6) with tolerance 2 output units + value of 2 offered units, the first-deposit D within 2 units of the exact root, output below reserve; drivers sweep n=2..4, amp 1..10^6, decimals {0,2,6,8,12,18}, reserves dust..10^30, skew, offers 1 unit..multiples of the reserve. TLC contributes checking, not exploration, for this numeric property (DESIGN section 7).", "3 C19"),
 "C05": ("MC_FarmLife explores every bounded interleaving of farm/position/claim operations (incl. reward denom = LP denom, swallowed refunds, penalty dust) with the custody invariant; Trace_Farm evaluates the same invariant on the bank balances, positions and farms observed after every event of every farm trace of the real contracts.", "3 C05"),
 "C06": ("MC_Farm checks the implementation-shaped reward mechanism against a dense reference ledger over all interleavings of open/expand/close/emergency/claim(until)/advance (no overpay, epoch budget, no starvation, cursor monotone); Trace_Farm recomputes every claim of the real contracts from the reference ledger it maintains along the trace (TLC infers the hidden claim cursor) and replays TLC-generated schedules.", "3 C06"),
 "C07": ("Same model and traces as C06: each real claim must pay exactly the reference ledger's floor(rate*w/total) sums per denom, the Rewards query issued immediately before must equal the payout, per-farm claimed_amount must advance by its share, and TLC-predicted payouts of replayed MC_Farm behaviours must equal the real payouts.", "3 C07"),
 "C08": ("MC_FarmLife carries the position state machine (owner-only moves, create-for-other only by the pool manager, LP conserved by closes, full payout after unlock) as action properties over all bounded interleavings; Trace_Farm judges every ManagePosition message of the real contracts from every role, including the exact unlock second and partial closes.", "3 C08"),
 "C09": ("Penalty bound/accounting are action properties of MC_FarmLife; on the real contracts every emergency withdrawal is judged by TLC with BigNat arithmetic against the property's formula (base x remaining x multiplier, capped, with the explicit FarmCurve.tla multiplier), the 90% bound, zero penalty after unlock, recipients and full accounting.", "3 C09"),
 "C10": ("MC_Farm checks total >= sum of users at every epoch (sparse and dense), no weight without position and next-epoch effect over all interleavings incl. a fractional multiplier; Trace_Farm checks the observed LpWeight map of contract and all users after every event, curve bounds and pairwise monotonicity of every observed (amount, duration, weight).", "3 C10"),
 "C11": ("MC_FarmLife explores farm create/expand/close/auto-close under fee configurations with conservation, limit and refund-only-to-owner properties; Trace_Farm judges every ManageFarm message of the real contracts with exact expected balance changes (fee, refunds of overpayment, remainders of auto-closed farms) under three fee configurations.", "3 C11"),
 "C18": ("Epochs.tla is checked exhaustively by TLC on a small domain (MC_Epoch) and the same operators, instantiated with BigNat arithmetic, judge every CurrentEpoch/Epoch/UpdateConfig answer recorded from the real epoch manager at boundary seconds, large times and overflowing ids.", "3 C18"),
}
NOTE = ("TLC results are exhaustive only within the constants of the named spec/*.cfg files; conformance holds for the executions "
        "the drivers generate (fixed scenarios + seeded random histories + TLC-generated behaviours) on cw-multi-test; the BigNat Java "
        "override is trusted for speed only (pure TLA+ definitions are normative).")
REASONS = {}

def main():
    props = [json.loads(l) for l in open(os.path.join(ROOT, "properties.jsonl"))]
    checks = []
    for p in sorted(PROPS):
        text, ref = TEXT[p]
        checks.append({
            "property_id": p,
            "quick_cmd": f"./check {p} --tier quick",
            "thorough_cmd": f"./check {p} --tier thorough",
            "evidence_file": f"/verif/evidence/{p}.json",
            "replay_cmd_template": f"./check {p} --replay {{path}}",
            "engine": "tla-trace",
            "level_claimed": {"category": PROPS[p]["level"], "text": text, "design_ref": "DESIGN.md section " + ref},
            "level_note": NOTE,
            "technique": PROPS[p].get("technique", "explicit TLA+ specification: TLC model checking of the design + TLC trace validation of recorded executions of the real contracts (and replay of TLC-generated behaviours)"),
        })
    m = {"version": 1, "setup_cmd": "./setup.sh",
         "hooks": {"guard": "mantra_dex_verif",
                   "enable": "--cfg mantra_dex_verif via /verif/harness/.cargo/config.toml rustflags (no hook is needed: the system is sequential and all abstract state is observable through public queries, the bank and the chain store)",
                   "baseline_off_cmd": "cd /repo && cargo test --workspace --no-fail-fast --offline", "source_commits": [], "add_only": True},
         "engines": [{"name": "tla-trace", "path": "/verif/check", "serves_properties": sorted(PROPS),
                      "kind_free_text": "TLA+ specifications (spec/*.tla) checked with TLC; Rust conformance harness (harness/) drives the real contracts on cw-multi-test and records ndjson traces that TLC validates against the specification; TLC-generated behaviours are replayed on the real contracts"}],
         "checks": checks,
         "notes": "See DESIGN.md. known_findings.json lists repaired defects (fix: commits in /repo) and recorded findings.",
         "not_applicable": [{"property_id": p["id"], "reason": REASONS.get(p["id"], "check not built yet (work in progress this session)")}
                            for p in props if p["id"] not in PROPS]}
    json.dump(m, open(os.path.join(ROOT, "MANIFEST.json"), "w"), indent=1)
    print("claimed:", sorted(PROPS))

if __name__ == "__main__":
    main()
