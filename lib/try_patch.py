#!/usr/bin/env python3
"""Development aid (not a registered command): apply a patch to /repo, run the given checks, revert.
usage: lib/try_patch.py <patch.diff> <Cxx> [<Cyy> ...]   -> prints one JSON line per check"""
import sys, os, subprocess, json, re, time
ROOT = os.path.dirname(os.path.dirname(os.path.abspath(__file__)))
patch = os.path.abspath(sys.argv[1])
props = sys.argv[2:]
def sh(cmd, **kw):
    return subprocess.run(cmd, shell=True, capture_output=True, text=True, **kw)
st = sh("git -C /repo status --porcelain").stdout.strip()
if st:
    print("refusing: /repo has uncommitted changes:\n" + st); sys.exit(2)
r = sh(f"git -C /repo apply {patch}")
if r.returncode != 0:
    print("patch does not apply: " + r.stderr); sys.exit(2)
try:
    for p in props:
        t0 = time.time()
        r = sh(f"./check {p}", cwd=ROOT)
        guards = set()
        for line in r.stdout.splitlines():
            m = re.match(r"VIOLATION property=(\S+) replay=(\S+)", line)
            if m and os.path.exists(m.group(2)):
                try:
                    guards.add(json.load(open(m.group(2))).get("guard") or json.load(open(m.group(2))).get("invariant"))
                except Exception:
                    pass
        print(json.dumps({"patch": os.path.basename(os.path.dirname(patch)) + "/" + os.path.basename(patch), "check": p, "exit": r.returncode,
                          "violations": len([l for l in r.stdout.splitlines() if l.startswith("VIOLATION")]),
                          "guards": sorted(g for g in guards if g), "known": [l[:80] for l in r.stdout.splitlines() if l.startswith("KNOWN-FINDING")],
                          "stderr_tail": r.stderr[-400:] if r.returncode == 2 else "", "wall_s": round(time.time() - t0)}), flush=True)
finally:
    sh("git -C /repo checkout -- .")
    left = sh("git -C /repo status --porcelain").stdout.strip()
    if left:
        print("WARNING: /repo not clean after revert:\n" + left)
