import sys, os, json, re, time, hashlib, subprocess, shutil, fcntl, random, glob

ROOT = os.path.dirname(os.path.dirname(os.path.abspath(__file__)))
REPO = os.environ.get("VERIF_REPO", "/repo")
SPEC = os.path.join(ROOT, "spec")
HARN = os.path.join(ROOT, "harness")
OUT = os.path.join(ROOT, "out")
VH = os.path.join(HARN, "target", "debug", "vh")
JAR = "/opt/veriftools/tla/tla2tools.jar"
DEPS = "/opt/veriftools/tla/CommunityModules-deps.jar"
CP = f"{SPEC}/classes:{JAR}:{DEPS}"
OVR = "-Dtlc2.overrides.TLCOverrides=tlc2.overrides.TLCOverrides:verif.Overrides"

from registry import PROPS, FAMILIES, MODELS


class ToolError(Exception):
    pass


def log(*a):
    print(*a, file=sys.stderr, flush=True)


def sh(cmd, timeout=None, env=None, cwd=None):
    e = dict(os.environ)
    if env:
        e.update(env)
    try:
        p = subprocess.run(cmd, shell=isinstance(cmd, str), capture_output=True, text=True,
                           timeout=timeout, env=e, cwd=cwd)
    except subprocess.TimeoutExpired as ex:
        raise ToolError(f"timeout after {timeout}s: {cmd}") from ex
    return p.returncode, p.stdout, p.stderr


def sha_files(paths):
    h = hashlib.sha256()
    for p in sorted(paths):
        h.update(p.encode())
        try:
            with open(p, "rb") as f:
                h.update(f.read())
        except OSError:
            h.update(b"<missing>")
    return h.hexdigest()[:16]


def repo_hash():
    files = []
    for base in ("contracts",):
        for d, dirs, fs in os.walk(os.path.join(REPO, base)):
            dirs[:] = [x for x in dirs if x not in ("target", "schema", ".git")]
            for f in fs:
                if f.endswith((".rs", ".toml", ".lock")):
                    files.append(os.path.join(d, f))
    files += [os.path.join(REPO, "Cargo.toml"), os.path.join(REPO, "Cargo.lock")]
    return sha_files(files)


def harness_hash():
    files = glob.glob(os.path.join(HARN, "src", "**", "*.rs"), recursive=True)
    files += [os.path.join(HARN, "Cargo.toml")]
    return sha_files(files)


def spec_hash():
    files = glob.glob(os.path.join(SPEC, "*.tla")) + glob.glob(os.path.join(SPEC, "*.cfg"))
    files += glob.glob(os.path.join(SPEC, "java", "verif", "*.java"))
    return sha_files(files)


def lib_hash():
    return sha_files([os.path.join(ROOT, "lib", f) for f in ("runner.py", "registry.py", "corrupt.py")])


# ---------------------------------------------------------------------------- build
def ensure_classes():
    cls = os.path.join(SPEC, "classes", "verif", "Overrides.class")
    srcs = glob.glob(os.path.join(SPEC, "java", "verif", "*.java"))
    if os.path.exists(cls) and all(os.path.getmtime(cls) >= os.path.getmtime(s) for s in srcs):
        return
    os.makedirs(os.path.join(SPEC, "classes"), exist_ok=True)
    rc, o, e = sh(["javac", "-cp", JAR, "-d", os.path.join(SPEC, "classes")] + srcs, timeout=300)
    if rc != 0:
        raise ToolError("javac failed: " + e[-2000:])


def build_harness():
    t0 = time.time()
    rc, o, e = sh(["cargo", "build", "--offline"], cwd=HARN, timeout=1800,
                  env={"CARGO_NET_OFFLINE": "true"})
    if rc != 0:
        raise ToolError("harness build failed (does /repo still compile?):\n" + e[-4000:])
    return time.time() - t0


# ---------------------------------------------------------------------------- TLC
def tlc_cmd(workers, xmx="6g", trace=False):
    j = ["java", "-XX:+UseParallelGC", f"-Xmx{xmx}", OVR]
    if trace:
        j += ["-Xss1g", "-Dtlc2.tool.queue.IStateQueue=StateDeque"]
    j += ["-cp", CP, "tlc2.TLC", "-workers", str(workers), "-cleanup", "-noGenerateSpecTE"]
    return j


def run_model(name, cfgfile, tier, timeout, workers=8, extra=None):
    """exhaustive / simulation TLC run of an MC_* model. Cached on the spec hash (independent of /repo)."""
    key = hashlib.sha256(f"{spec_hash()}|{name}|{cfgfile}|{extra}".encode()).hexdigest()[:16]
    cdir = os.path.join(OUT, "cache", "models")
    os.makedirs(cdir, exist_ok=True)
    cfile = os.path.join(cdir, f"{name}-{key}.json")
    if os.path.exists(cfile):
        return json.load(open(cfile))
    meta = os.path.join(OUT, "tlc", f"{name}-{key}")
    shutil.rmtree(meta, ignore_errors=True)
    cmd = tlc_cmd(workers) + ["-metadir", meta, "-config", cfgfile] + (extra or []) + [name + ".tla"]
    t0 = time.time()
    rc, o, e = sh(["timeout", str(timeout)] + cmd, cwd=SPEC, timeout=timeout + 30)
    shutil.rmtree(meta, ignore_errors=True)
    wall = time.time() - t0
    res = {"model": name, "cfg": cfgfile, "wall_s": round(wall, 1), "rc": rc}
    m = re.search(r"(\d+) states generated, (\d+) distinct states found", o)
    if m:
        res["transitions"] = int(m.group(1))
        res["states"] = int(m.group(2))
    m = re.search(r"depth of the complete state graph search is (\d+)", o)
    if m:
        res["depth"] = int(m.group(1))
    viol = re.findall(r"Invariant (\S+) is violated|Action property (\S+) is violated|Temporal properties were violated", o)
    res["violated"] = [a or b or "temporal" for a, b in viol] if viol else []
    res["complete"] = "Model checking completed" in o or "Finished in" in o and rc == 0
    if res["violated"]:
        i = o.find("Error:")
        res["counterexample"] = o[i:i + 20000]
    elif rc == 124:
        raise ToolError(f"TLC timeout on {name} ({cfgfile}) after {timeout}s")
    elif rc != 0 or "states generated" not in o:
        raise ToolError(f"TLC failed on {name} ({cfgfile}) rc={rc}:\n" + o[-3000:] + e[-1000:])
    # printed behaviours / edges, if the model prints any
    res["printed"] = [l for l in o.splitlines() if l.startswith('<<"')][:200000]
    json.dump(res, open(cfile, "w"))
    return res


TAG_RE = re.compile(r'^<<"TAG", (\d+), (\d+), "([^"]+)"(?:, "([^"]*)")?>>')
KNOWN_RE = re.compile(r'^<<"KNOWN", (\d+), (\d+), "([^"]+)", "([^"]+)">>')
EVAL_RE = re.compile(r'^<<"EVAL", "([^"]+)", (\d+), (\d+), (\d+)>>')
APP_RE = re.compile(r'^<<"A", (\d+), "([^"]+)">>')
CONS_RE = re.compile(r'^<<"CONSUMED", (\d+), (\d+)>>')


def validate_trace(specname, tracefile, timeout=900):
    meta = os.path.join(OUT, "tlc", "tr-" + hashlib.sha256(tracefile.encode()).hexdigest()[:12])
    shutil.rmtree(meta, ignore_errors=True)
    cmd = tlc_cmd(1, xmx="4g", trace=True) + ["-metadir", meta, "-config", specname + ".cfg", specname + ".tla"]
    rc, o, e = sh(["timeout", str(timeout)] + cmd, cwd=SPEC, timeout=timeout + 30, env={"TRACE": tracefile})
    shutil.rmtree(meta, ignore_errors=True)
    tags, known, evals, apps, consumed = [], [], {}, {}, None
    for line in o.splitlines():
        m = TAG_RE.match(line)
        if m:
            tags.append({"i": int(m.group(1)), "sc": int(m.group(2)), "guard": m.group(3), "info": m.group(4) or ""})
            continue
        m = KNOWN_RE.match(line)
        if m:
            known.append({"i": int(m.group(1)), "sc": int(m.group(2)), "guard": m.group(3), "finding": m.group(4)})
            continue
        m = EVAL_RE.match(line)
        if m:
            evals[m.group(1)] = [int(m.group(2)), int(m.group(3)), int(m.group(4))]
            continue
        m = APP_RE.match(line)
        if m:
            apps.setdefault(int(m.group(1)), []).append(m.group(2))
            continue
        m = CONS_RE.match(line)
        if m:
            consumed = (int(m.group(1)), int(m.group(2)))
    if rc == 124:
        raise ToolError(f"trace validation timeout: {specname} on {tracefile}")
    if consumed is None or consumed[0] != consumed[1] or "Error:" in o:
        i = o.find("Error:")
        text = o[max(0, i - 1500):i + 3000]
        if not tags:
            raise ToolError(f"trace not fully consumed by {specname} ({tracefile}): consumed={consumed}\n" + text)
        # TLC stopped in the middle of the trace (a recorded state the specification's formulas cannot even be evaluated on),
        # but it had already flagged events: those stand. Counters are rebuilt from the per-event lines printed so far.
        evals = {}
        for gs in apps.values():
            for g in gs:
                evals.setdefault(g, [0, 0, 0])
                evals[g][0] += 1; evals[g][1] += 1
        for t in tags:
            evals.setdefault(t["guard"], [0, 0, 0])[2] += 1
        return {"tags": tags, "known": known, "evals": evals, "apps": apps, "events": max(apps) if apps else 0, "tlc_aborted": text[-1500:]}
    return {"tags": tags, "known": known, "evals": evals, "apps": apps, "events": consumed[1]}


# ---------------------------------------------------------------------------- engine (per family)
def run_driver(driver, seed, tier, outpath, extra_args=None, timeout=1800):
    cmd = [VH, driver, "--seed", str(seed), "--tier", tier, "--out", outpath] + (extra_args or [])
    rc, o, e = sh(cmd, timeout=timeout)
    if rc != 0:
        raise ToolError(f"driver {driver} failed rc={rc}:\n" + e[-3000:] + o[-500:])
    last = [l for l in o.splitlines() if l.startswith("{")]
    return json.loads(last[-1]) if last else {}


def corrupt_trace(family, src, dst, seed, avoid=()):
    """copy src to dst with one logged field perturbed; returns a description or None"""
    import corrupt
    return corrupt.corrupt(family, src, dst, seed, avoid)


def prune(family, keep=3):
    """bound the disk used by old traces and cached verdicts (the newest `keep` per family stay)"""
    tdirs = sorted(glob.glob(os.path.join(OUT, "traces", f"{family}-*")), key=os.path.getmtime, reverse=True)
    for d in tdirs[keep:]:
        shutil.rmtree(d, ignore_errors=True)
    cfs = sorted(glob.glob(os.path.join(OUT, "cache", "engine", f"{family}-*.json")), key=os.path.getmtime, reverse=True)
    for f in cfs[keep * 3:]:
        try:
            os.remove(f)
        except OSError:
            pass


def engine(family, seed, tier):
    """drivers of a family -> traces -> TLC verdicts. Cached on (repo, harness, spec, seed, tier)."""
    fam = FAMILIES[family]
    key = hashlib.sha256(f"{repo_hash()}|{harness_hash()}|{spec_hash()}|{lib_hash()}|{seed}|{tier}|{family}".encode()).hexdigest()[:16]
    cdir = os.path.join(OUT, "cache", "engine")
    os.makedirs(cdir, exist_ok=True)
    cfile = os.path.join(cdir, f"{family}-{key}.json")
    lock = open(os.path.join(cdir, f"{family}.lock"), "w")
    fcntl.flock(lock, fcntl.LOCK_EX)
    try:
        if os.path.exists(cfile):
            r = json.load(open(cfile))
            if all(os.path.exists(d["trace"]) for d in r["drivers"]):
                r["cached"] = True
                return r
        t0 = time.time()
        prune(family)
        tdir = os.path.join(OUT, "traces", f"{family}-{key}")
        os.makedirs(tdir, exist_ok=True)
        res = {"family": family, "seed": seed, "tier": tier, "key": key, "drivers": [], "cached": False}
        for drv in fam["drivers"]:
            name = drv["name"]
            trace = os.path.join(tdir, name + ".ndjson")
            pre = drv.get("pre")
            extra = []
            if pre:
                extra = pre(seed, tier, tdir)  # e.g. TLC-generated behaviours to replay
            summ = run_driver(name, seed, tier, trace, extra_args=extra.get("args") if isinstance(extra, dict) else None)
            v = validate_trace(drv["spec"], trace)
            d = {"name": name, "spec": drv["spec"], "trace": trace, "summary": summ.get("summary", {}), **v}
            if isinstance(extra, dict):
                d["pre"] = extra.get("info")
            res["drivers"].append(d)
        # binding self-test: a corrupted copy of the first trace must be flagged
        st = {"done": False}
        d0 = res["drivers"][0]
        cpath = os.path.join(tdir, d0["name"] + ".corrupt.ndjson")
        # events the specification already flags (a tree that breaks a property) are left alone: also the two neighbours,
        # because a corrupted post-state is the next event's pre-state
        flagged = {t["i"] + k for t in d0["tags"] + d0.get("known", []) for k in (-1, 0, 1)}
        desc = corrupt_trace(family, d0["trace"], cpath, seed, flagged)
        if desc is not None:
            v2 = validate_trace(d0["spec"], cpath)
            orig = {(t["i"], t["guard"]) for t in d0["tags"]}
            new = [t for t in v2["tags"] if (t["i"], t["guard"]) not in orig]
            st = {"done": True, "corruption": desc, "flagged": len(new), "flags": new[:5]}
            os.remove(cpath)
            if not new and not d0["tags"]:
                raise ToolError(f"binding self-test failed: corrupted trace not flagged ({desc})")
            if not new:
                # the trace already carries violations; they are reported, the self-test result is recorded as inconclusive
                st["inconclusive"] = True
        res["selftest"] = st
        res["wall_s"] = round(time.time() - t0, 1)
        json.dump(res, open(cfile, "w"))
        return res
    finally:
        fcntl.flock(lock, fcntl.LOCK_UN)
        lock.close()


# ---------------------------------------------------------------------------- findings
def load_findings():
    p = os.path.join(ROOT, "known_findings.json")
    if not os.path.exists(p):
        return []
    return json.load(open(p)).get("findings", [])


def prop_of(guard):
    return guard.split("_", 1)[0]


def read_lines(trace, upto_i, sc):
    out = []
    with open(trace) as f:
        for line in f:
            try:
                e = json.loads(line)
            except Exception:
                continue
            if e.get("sc") == sc and e.get("i", 0) <= upto_i:
                out.append(e)
            if e.get("i", 0) > upto_i:
                break
    return out


def write_violation(prop, kind, payload):
    vdir = os.path.join(OUT, "violations")
    os.makedirs(vdir, exist_ok=True)
    h = hashlib.sha256(json.dumps(payload, sort_keys=True, default=str).encode()).hexdigest()[:10]
    path = os.path.join(vdir, f"{prop}-{kind}-{h}.json")
    json.dump(payload, open(path, "w"), indent=1, default=str)
    return path


# ---------------------------------------------------------------------------- main
def check(prop, tier, seed):
    t0 = time.time()
    P = PROPS[prop]
    ensure_classes()
    build_s = build_harness()
    findings = load_findings()
    open_ids = {f["id"] for f in findings if f.get("status") == "open" and prop in (f.get("property"), f.get("also_property"))}
    violations, known_lines = [], []
    cov = {"states": 0, "transitions": 0, "traces_validated_against_impl": 0, "evaluations": 0,
           "distinct_nontrivial": 0, "samples": [], "models": [], "guards": {}, "drivers": []}
    # 1. design-level exploration
    for mname in P.get("models", []):
        M = MODELS[mname]
        cfgfile = M["thorough"] if tier == "thorough" and M.get("thorough") else M["quick"]
        to = M.get("timeout_thorough", 1500) if tier == "thorough" else M.get("timeout_quick", 300)
        r = run_model(M["module"], cfgfile, tier, to, workers=M.get("workers", 8), extra=M.get("extra"))
        cov["states"] += r.get("states", 0)
        cov["transitions"] += r.get("transitions", 0)
        cov["models"].append({k: r.get(k) for k in ("model", "cfg", "states", "transitions", "depth", "wall_s")})
        for inv in r.get("violated", []):
            if prop_of(inv) == prop or inv == "temporal":
                path = write_violation(prop, "model", {"property": prop, "model": mname, "cfg": cfgfile,
                                                       "invariant": inv, "counterexample": r.get("counterexample")})
                violations.append((inv, path))
        if M.get("sample"):
            cov["samples"].append({"kind": "model", "model": mname, "cfg": cfgfile, "note": M["sample"]})
    # 1b. TLAPS proofs of unbounded lemmas (a bonus that never gates the verdict: failure to discharge is reported, not a violation)
    for pf in P.get("proofs", []):
        # proved from scratch (no fingerprints of earlier runs), once per version of the specification
        pkey = hashlib.sha256(f"{spec_hash()}|{pf}".encode()).hexdigest()[:16]
        pcache = os.path.join(OUT, "cache", "models", f"tlaps-{os.path.basename(pf)}-{pkey}.json")
        os.makedirs(os.path.dirname(pcache), exist_ok=True)
        if os.path.exists(pcache):
            pr = json.load(open(pcache))
        else:
            t1 = time.time()
            cdir = os.path.join(OUT, "tlaps", pkey)
            shutil.rmtree(cdir, ignore_errors=True)
            os.makedirs(cdir, exist_ok=True)
            rc, o, e = sh(["timeout", "600", "tlapm", "--cleanfp", "--cache-dir", cdir, "--threads", "4", pf], cwd=SPEC, timeout=630)
            shutil.rmtree(cdir, ignore_errors=True)
            m = re.search(r"All (\d+) obligations? proved", o + e)
            m2 = re.search(r"(\d+)/(\d+) obligations? failed", o + e)
            pr = {"file": "spec/" + pf, "wall_s": round(time.time() - t1, 1)}
            if m:
                pr.update({"obligations": int(m.group(1)), "discharged": int(m.group(1))})
            elif m2:
                pr.update({"obligations": int(m2.group(2)), "discharged": int(m2.group(2)) - int(m2.group(1))})
            else:
                pr.update({"obligations": 0, "discharged": 0, "error": (o + e)[-300:]})
            if rc != 124:
                json.dump(pr, open(pcache, "w"))
        if pr.get("obligations", 0) != pr.get("discharged", 0) or not pr.get("obligations"):
            log(f"note: TLAPS did not discharge every obligation of {pf}: {pr}")
        cov.setdefault("tlaps", []).append(pr)
    # 2. conformance: traces of the real contracts judged by the trace specification
    seen_distinct = set()
    for famname in P.get("families", []):
        E = engine(famname, seed, tier)
        for d in E["drivers"]:
            cov["traces_validated_against_impl"] += d["summary"].get("scenarios", 1)
            # TLC explores one state per recorded event of the trace specification (+ initial and final state)
            cov["states"] += d["events"] + 2
            cov["transitions"] += d["events"] + 1
            cov["trace_spec_states"] = cov.get("trace_spec_states", 0) + d["events"] + 2
            cov["drivers"].append({"driver": d["name"], "events": d["events"], "scenarios": d["summary"].get("scenarios"),
                                   "by_kind": d["summary"].get("by_kind"),
                                   # behaviours / edges TLC generated from the MC_* model for this driver to replay (spec -> implementation)
                                   **({"generated_by_tlc": d["pre"]} if d.get("pre") else {})})
            for g, (ev, app, bad) in d["evals"].items():
                if prop_of(g) in ("M", "S"):
                    # model-conformance (M_) and beyond-the-properties (S_) guards: reported, never violations
                    c = cov.setdefault("spec_conformance", {}).setdefault(g, [0, 0, 0])
                    c[0] += ev; c[1] += app; c[2] += bad
                    if bad:
                        log(f"note: {g} failed on {bad} event(s) of driver {d['name']} (specification and implementation disagree on a rule that is not one of the listed properties)")
                if prop_of(g) == prop:
                    c = cov["guards"].setdefault(g, [0, 0, 0])
                    c[0] += ev; c[1] += app; c[2] += bad
                    cov["evaluations"] += app
            # distinct non-trivial events for this property
            lines_needed = {int(i) for i, gs in d["apps"].items() if any(prop_of(g) == prop for g in gs)}
            if lines_needed:
                nsamp = 0
                with open(d["trace"]) as f:
                    for line in f:
                        e = json.loads(line)
                        if e["i"] in lines_needed:
                            e2 = dict(e); e2.pop("i", None); e2.pop("sc", None)
                            hsh = hashlib.sha256(json.dumps(e2, sort_keys=True).encode()).hexdigest()
                            if hsh not in seen_distinct:
                                seen_distinct.add(hsh)
                                if nsamp < 2 and len(cov["samples"]) < 6:
                                    s = json.dumps(e)
                                    cov["samples"].append({"kind": "trace_event", "driver": d["name"],
                                                           "event": e if len(s) < 3000 else s[:3000] + "..."})
                                    nsamp += 1
            # violations of this property
            per_guard = {}
            for t in d["tags"]:
                if prop_of(t["guard"]) != prop:
                    continue
                per_guard.setdefault(t["guard"], []).append(t)
            for g, ts in per_guard.items():
                for t in ts[:3]:
                    path = write_violation(prop, "trace", {
                        "property": prop, "guard": g, "driver": d["name"], "family": famname, "seed": seed, "tier": tier,
                        "line": t["i"], "scenario": t["sc"], "info": t.get("info", ""), "occurrences_of_guard": len(ts),
                        "events": read_lines(d["trace"], t["i"], t["sc"])[-40:]})
                    violations.append((g, path))
            for k in d["known"]:
                if prop_of(k["guard"]) != prop:
                    continue
                if k["finding"] in open_ids:
                    known_lines.append((k["finding"], k["guard"], d["name"], k["i"]))
                else:
                    path = write_violation(prop, "trace", {
                        "property": prop, "guard": k["guard"], "driver": d["name"], "family": famname, "seed": seed,
                        "tier": tier, "line": k["i"], "scenario": k["sc"], "note": f"matches finding {k['finding']} which is not listed as open",
                        "events": read_lines(d["trace"], k["i"], k["sc"])[-40:]})
                    violations.append((k["guard"], path))
        cov.setdefault("binding_selftest", []).append({famname: E.get("selftest")})
    cov["distinct_nontrivial"] = len(seen_distinct)
    cov["rule"] = ("states/transitions = TLC states of the MC_* models listed under `models` plus one TLC state per recorded event "
                   "of the trace specification (trace_spec_states); evaluations = applications of this property's guards (antecedent true) by TLC on recorded events of the real "
                   "contracts; distinct_nontrivial = distinct recorded events (content hash, ignoring line numbers) on which at least "
                   "one guard of this property was applicable")
    if P.get("exhaustive"):
        cov["exhaustive"] = True
    # TLC stopped in the middle of a trace: violations flagged before that stand; without any for this property it is a tool error
    for famname in P.get("families", []):
        for d in engine(famname, seed, tier)["drivers"]:
            if d.get("tlc_aborted") and not violations:
                raise ToolError(f"TLC could not evaluate the whole trace of driver {d['name']} and flagged nothing for {prop} before stopping:\n" + d["tlc_aborted"])
    # a driver that aborted (its own panic, e.g. on a state the harness did not expect) leaves the rest of its scenarios
    # unrecorded: violations found before the abort stand; without any, the run is a tool error, not a pass
    if cov.get("spec_conformance", {}).get("M_driver_completed", [0, 0, 0])[2] and not violations:
        raise ToolError("a driver aborted before finishing its scenarios (see the driver_abort event of its trace) and nothing was flagged before that")
    # vacuity: a property whose guards were never applicable was not exercised
    if P.get("families") and cov["evaluations"] == 0:
        raise ToolError(f"vacuous: no guard of {prop} was applicable on any recorded event")
    if not cov["samples"]:
        cov["samples"].append({"kind": "none"})
    # 3. report
    seen = set()
    for fid, g, drv, i in known_lines:
        if fid in seen:
            continue
        seen.add(fid)
        f = next(x for x in findings if x["id"] == fid)
        n = sum(1 for x in known_lines if x[0] == fid)
        print(f"KNOWN-FINDING: property={prop} {fid} {f.get('what', '')} (guard {g}, {n} occurrence(s), e.g. driver {drv} line {i})")
    for g, path in violations[:20]:
        print(f"VIOLATION property={prop} replay={path}")
    ev = {"property_id": prop, "tier": tier, "seed": seed, "level": P["level"], "coverage": cov,
          "assumptions": P.get("assumptions", []) + [
              "cw-multi-test bank / token-factory / wasm dispatch semantics stand in for the chain",
              "TLC results are exhaustive only within the constants of the named config files"],
          "wall_s": round(time.time() - t0, 1), "violations": len(violations),
          "known_findings": sorted(seen), "harness_build_s": round(build_s, 1)}
    os.makedirs(os.path.join(ROOT, "evidence"), exist_ok=True)
    json.dump(ev, open(os.path.join(ROOT, "evidence", f"{prop}.json"), "w"), indent=1)
    return 1 if violations else 0


def replay(path):
    v = json.load(open(path))
    prop = v["property"]
    if "driver" not in v:
        print(f"model counterexample for {prop} in {v.get('model')}: re-running the model")
        return check(prop, "quick", 1)
    ensure_classes()
    build_harness()
    E = engine(v["family"], v["seed"], v["tier"])
    hit = [t for d in E["drivers"] if d["name"] == v["driver"] for t in d["tags"]
           if t["guard"] == v["guard"] and t["i"] == v["line"]]
    if hit:
        print(f"VIOLATION property={prop} replay={path}")
        return 1
    print(f"not reproduced: {v['guard']} at line {v['line']} of driver {v['driver']} (seed {v['seed']}, tier {v['tier']})")
    return 0


def main(argv):
    if not argv:
        print(__doc__)
        return 2
    tier = os.environ.get("VERIF_TIER", "quick")
    seed = int(os.environ.get("VERIF_SEED", "1"))
    prop, rp = None, None
    i = 0
    while i < len(argv):
        a = argv[i]
        if a == "--tier":
            tier = argv[i + 1]; i += 2
        elif a == "--seed":
            seed = int(argv[i + 1]); i += 2
        elif a == "--replay":
            rp = argv[i + 1]; i += 2
        else:
            prop = a; i += 1
    try:
        if rp:
            return replay(rp)
        if prop not in PROPS:
            print(f"unknown or unclaimed property {prop}", file=sys.stderr)
            return 2
        return check(prop, tier, seed)
    except ToolError as e:
        print(f"TOOL-ERROR: {e}", file=sys.stderr)
        return 2
