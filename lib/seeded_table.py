#!/usr/bin/env python3
"""Writes seeded/README.md: one row per kept seeded change with the checks/guards that catch it."""
import json, glob, os
ROOT = os.path.dirname(os.path.dirname(os.path.abspath(__file__)))
rows = []
for d in sorted(glob.glob(os.path.join(ROOT, "seeded", "*-*"))):
    m = json.load(open(os.path.join(d, "meta.json")))
    name = os.path.basename(d)
    last = m["detection"][-1]["round"] if m["detection"] else None
    final = [x for x in m["detection"] if x["round"] == last]
    caught_by = sorted({f'{x["check"]}: {", ".join(x["guards"])}' for x in final if x["exit"] == 1})
    rows.append((name, m["breaks_property"], (m.get("summary") or "").replace("\n", " ")[:230], (m.get("needs_to_manifest") or "").replace("\n", " ")[:200],
                 m.get("detected_when_first_evaluated"), m.get("first_evaluated_in", ""), m.get("detected_finally"), caught_by, m.get("note", "")))
out = ["# Seeded changes (each compiles, passes the 158-test suite, breaks the named property; written by independent sub-agents)", "",
       "| id | change | needs to manifest | caught when first evaluated | caught by the final machinery (check: guards) |",
       "|----|--------|-------------------|-----------------------------|-----------------------------------------------|"]
for r in rows:
    first = {True: "yes", False: "**no**", None: "-"}[r[4]] + f" ({(r[5] or '').split(' (')[0]})"
    fin = "; ".join(r[7]) if r[6] else ("**not caught**" + (f" - {r[8][:160]}" if r[8] else ""))
    out.append(f"| {r[0]} | {r[2]} | {r[3]} | {first} | {fin} |")
n = len(rows); nf = sum(1 for r in rows if r[6]); n1 = sum(1 for r in rows if r[4])
out += ["", f"{n} kept; {n1} caught by the machinery as it stood when they were first evaluated; {nf} caught by the final machinery."]
open(os.path.join(ROOT, "seeded", "README.md"), "w").write("\n".join(out) + "\n")
print(out[-1])
