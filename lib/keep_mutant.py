#!/usr/bin/env python3
"""Keep a confirmed seeded change under /verif/seeded/<id>-<n>/ (patch.diff, demo.diff, meta.json).
usage: lib/keep_mutant.py Cxx N [--patch file] [--note text]   (reads /tmp/confirm_*.log and /tmp/try_*.log / /tmp/det_all.log)"""
import sys, os, json, shutil, glob, re
ROOT = os.path.dirname(os.path.dirname(os.path.abspath(__file__)))
pid, n = sys.argv[1], sys.argv[2]
args = sys.argv[3:]
wave = args[args.index("--wave") + 1] if "--wave" in args else ""      # "" or "2"
patchfile = args[args.index("--patch") + 1] if "--patch" in args else f"/tmp/mut/{pid}-out{wave}/patch{n}.diff"
note = args[args.index("--note") + 1] if "--note" in args else None
src = f"/tmp/mut/{pid}-out{wave}"
dst = os.path.join(ROOT, "seeded", f"{pid}-{n}" if not wave else f"{pid}-w{wave}-{n}")
os.makedirs(dst, exist_ok=True)
shutil.copy(patchfile, f"{dst}/patch.diff")
shutil.copy(f"{src}/demo{n}.diff", f"{dst}/demo.diff")
try:
    meta = json.load(open(f"{src}/meta{n}.json"))
except Exception as e:
    meta = {"note": f"agent meta unreadable: {e}"}
# my confirmation
confirm = None
for f in sorted(glob.glob("/tmp/confirm_*.log")):
    txt = open(f).read()
    m = re.search(r"#### %s%s %s\n(.*?)(?=\n#### |\Z)" % (pid, ("w" + wave) if wave else "", n), txt, re.S)
    if m:
        body = m.group(1)
        lines = [l for l in body.splitlines() if l.startswith("passed") or "FAILED" in l and l.startswith("test ")]
        confirm = lines
ROUNDS = [("/tmp/det_all.log", "round 1 (machinery as first built, commit ba9e68e)"),
          ("/tmp/try_q1.log", "round 1 (machinery as first built, commit ba9e68e)"),
          ("/tmp/try_q2.log", "round 2 (after the first strengthening, commit fbbdce9)"),
          ("/tmp/try_q3.log", "round 3 (after the second strengthening, commit 14ceb53+)"),
          ("/tmp/try_q4.log", "round 4 (after the third strengthening)"),
          ("/tmp/try_q5.log", "thorough tier (final machinery of wave 1)"),
          ("/tmp/try_w2.log", "wave 2, batch A, first evaluation (commit 8c27c5c; its wave-2 shapes were added after reading the agents' descriptions, before evaluating)"),
          ("/tmp/try_w2c.log", "wave 2, batch A, second evaluation (commit 1d1fcc6; shapes for the remaining batch-A changes added from their descriptions before evaluating)"),
          ("/tmp/try_w2d.log", "wave 2, batch B, first evaluation with the machinery frozen at commit 1d1fcc6 (descriptions not used)"),
          ("/tmp/try_w2e.log", "wave 2, after the strengthening that followed batch B"),
          ("/tmp/try_w2f.log", "wave 2, thorough tier"),
          ("/tmp/try_w3a.log", "wave 3, first evaluation with the machinery frozen at commit da892cb (descriptions not used)"),
          ("/tmp/try_w3b.log", "final machinery (commit 13e2195, after the strengthening that followed wave 3)"),
          ("/tmp/try_w3c.log", "final machinery (commit 13e2195, after the strengthening that followed wave 3)"),
          ("/tmp/try_w3d.log", "final machinery (commit 2410502: F7 residual 8 units, routes must offer the previous proceeds)"),
          ("/tmp/try_w4a.log", "wave 4, first evaluation with the machinery frozen at commit c8b65a0 (descriptions not used)"),
          ("/tmp/try_w4b.log", "wave 4, first evaluation with the machinery frozen at commit c8b65a0 (descriptions not used)"),
          ("/tmp/try_w4c.log", "final machinery (commit 7e0a4e5, after the strengthening that followed wave 4)"),
          ("/tmp/try_w4d.log", "final machinery (commit 7e0a4e5, after the strengthening that followed wave 4)"),
          ("/tmp/try_w5a.log", "wave 5, first evaluation with the machinery frozen at commit 7e0a4e5 (descriptions not used)"),
          ("/tmp/try_w5b.log", "wave 5, first evaluation with the machinery frozen at commit 7e0a4e5 (descriptions not used)"),
          ("/tmp/try_w5c.log", "final machinery (after the strengthening that followed wave 5)"),
          ("/tmp/try_w5d.log", "final machinery (after the strengthening that followed wave 5)"),
          ("/tmp/try_w6a.log", "wave 5 (second half), first evaluation with the machinery frozen at commit bb3faa1 (descriptions not used)"),
          ("/tmp/try_w6b.log", "wave 5 (second half), first evaluation with the machinery frozen at commit bb3faa1 (descriptions not used)"),
          ("/tmp/try_w6c.log", "final machinery (commit 84969d3)"),
          ("/tmp/try_w6d.log", "final machinery (commit 84969d3)"),
          ("/tmp/try_w7a.log", "wave 5 (last round), first evaluation with the machinery frozen at commit 84969d3 (descriptions not used)"),
          ("/tmp/try_w7b.log", "wave 5 (last round), first evaluation with the machinery frozen at commit 84969d3 (descriptions not used)"),
          ("/tmp/try_w7c.log", "final machinery (commit 69f9b94)")]
det = []
base = os.path.basename(patchfile)
for f, label in ROUNDS:
    if not os.path.exists(f):
        continue
    for l in open(f):
        try:
            j = json.loads(l)
        except Exception:
            continue
        if j.get("patch") in (f"{pid}-out{wave}/patch{n}.diff", f"{pid}-out{wave}/{base}"):
            det.append({"round": label, **{k: j[k] for k in ("check", "exit", "violations", "guards", "known") if k in j}})
out = {"breaks_property": pid, "summary": meta.get("summary"), "needs_to_manifest": meta.get("needs_to_manifest"),
       "files": meta.get("files"), "author": "independent sub-agent given only the property text and a scratch worktree of /repo",
       "agent_ran": meta.get("ran"),
       "confirmed_by_me": {"how": "lib/confirm_mutant.sh in the scratch worktree: (1) patch alone: whole suite; (2) patch + demo; (3) demo alone",
                           "result": confirm},
       "detection": det,
       "detected_finally": bool(det) and any(d["exit"] == 1 for d in det if d["round"] == det[-1]["round"]),
       "first_evaluated_in": det[0]["round"] if det else None,
       "detected_when_first_evaluated": (any(d["exit"] == 1 for d in det if d["round"] == det[0]["round"]) if det else None)}
if note:
    out["note"] = note
json.dump(out, open(f"{dst}/meta.json", "w"), indent=1)
print(f"{pid}-{n}", "first:", out["detected_when_first_evaluated"], "finally:", out["detected_finally"], sorted({g for d in det for g in d.get("guards", [])})[:4])
