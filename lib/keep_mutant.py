#!/usr/bin/env python3
"""Keep a confirmed seeded change: lib/keep_mutant.py Cxx N '<confirm summary>' '<detection json lines file>'"""
import sys, os, json, shutil
ROOT = os.path.dirname(os.path.dirname(os.path.abspath(__file__)))
pid, n, confirm, detfile = sys.argv[1], sys.argv[2], sys.argv[3], sys.argv[4]
src = f"/tmp/mut/{pid}-out"
dst = os.path.join(ROOT, "seeded", f"{pid}-{n}")
os.makedirs(dst, exist_ok=True)
shutil.copy(f"{src}/patch{n}.diff", f"{dst}/patch.diff")
shutil.copy(f"{src}/demo{n}.diff", f"{dst}/demo.diff")
try:
    meta = json.load(open(f"{src}/meta{n}.json"))
except Exception as e:
    meta = {"note": f"agent meta unreadable: {e}"}
det = []
for l in open(detfile):
    try:
        j = json.loads(l)
    except Exception:
        continue
    if j.get("patch", "").startswith(f"{pid}-out/patch{n}"):
        det.append({k: j[k] for k in ("check", "exit", "violations", "guards", "known")})
out = {"breaks_property": pid, "summary": meta.get("summary"), "needs_to_manifest": meta.get("needs_to_manifest"),
       "files": meta.get("files"), "author": "independent sub-agent given only the property text and a scratch worktree",
       "agent_ran": meta.get("ran"),
       "confirmed_by_me": {"how": "lib/confirm_mutant.sh in the scratch worktree: (1) patch alone, whole suite; (2) patch + demo; (3) demo alone",
                           "result": confirm},
       "detection": det,
       "detected": any(d["exit"] == 1 for d in det)}
json.dump(out, open(f"{dst}/meta.json", "w"), indent=1)
print(dst, "detected" if out["detected"] else "NOT DETECTED", [d["guards"] for d in det])
