"""Binding self-test: perturb one logged field of one event; the trace specification must flag it."""
import json, random


def bump(limbs):
    l = list(limbs)
    if not l:
        return [1]
    l[0] = l[0] + 1 if l[0] < 9999 else l[0] - 1
    return l


def bump_fm_balance(e):
    b = e["post"]["bal"]["fm"]
    d = sorted(b.keys())[0]
    for k in sorted(b.keys()):
        if b[k]:
            d = k
            break
    b[d] = bump(b[d])


def bump_pm_balance(e):
    b = e["post"]["bal"]["pm"]
    for k in sorted(b.keys()):
        if b[k]:
            b[k] = bump(b[k])
            return
    k = sorted(b.keys())[0]
    b[k] = bump(b[k])


def bump_ret(e):
    e["attrs"]["ret"] = bump(e["attrs"]["ret"])


def flip_ok(e):
    e["ok"] = not e["ok"]


def flip_digest(e):
    e["digest_same"] = not e["digest_same"]


RULES = {
    "fault": [("fault", lambda e: e.get("k", 99) <= e.get("ncalls", 0) and not e.get("ok"), flip_digest, "fault.digest_same flipped")],
    "auth": [("auth_edge", lambda e: not e.get("tick"), flip_ok, "auth_edge.ok flipped")],
    "pool": [("pm_swap", lambda e: e.get("ok"), bump_pm_balance, "post.bal.pm[denom] +- 1 after a swap"),
             ("pm_swap", lambda e: e.get("ok"), bump_ret, "logged return amount of a swap +- 1"),
             ("pm_withdraw", lambda e: e.get("ok"), bump_pm_balance, "post.bal.pm[denom] +- 1 after a withdrawal")],
    "farm": [("fm_pos_create", lambda e: e.get("ok"), bump_fm_balance, "post.bal.fm[denom] +- 1 after a position creation"),
             ("fm_claim", lambda e: e.get("ok"), bump_fm_balance, "post.bal.fm[denom] +- 1 after a claim")],
    # family -> list of (event kind, predicate, mutator, description)
    "epoch": [("q_epoch", lambda e: e.get("ok"), lambda e: e.__setitem__("id", bump(e["id"])), "q_epoch.id + 1")],
}


def corrupt(family, src, dst, seed, avoid=()):
    """`avoid`: line numbers (field i) the specification already flags in the uncorrupted trace - on a tree that breaks a
    property the self-test must pick an event that is still clean, otherwise it could not tell the corruption's flag from
    the violation's."""
    rules = RULES.get(family)
    if not rules:
        return None
    rng = random.Random(seed)
    lines = open(src).read().splitlines()
    kind, pred, mut, desc = rules[rng.randrange(len(rules))]
    avoid = set(avoid)
    cands = [k for k, l in enumerate(lines) if f'"ev":"{kind}"' in l and pred(json.loads(l)) and json.loads(l).get("i") not in avoid]
    if not cands:
        return None
    k = cands[rng.randrange(len(cands))]
    e = json.loads(lines[k])
    mut(e)
    lines[k] = json.dumps(e, separators=(",", ":"))
    with open(dst, "w") as f:
        f.write("\n".join(lines) + "\n")
    return f"{desc} at line {e['i']}"
