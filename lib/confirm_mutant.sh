#!/bin/sh
# confirm a seeded change in its scratch worktree: ./lib/confirm_mutant.sh Cxx N
# 1. patchN alone: whole suite must pass   2. patchN + demoN: suite fails (the demo)   3. demoN alone: suite passes
ID=$1; N=$2; WAVE=$3; W=/tmp/mut/$ID; O=/tmp/mut/$ID-out$WAVE
export LD_LIBRARY_PATH=/root/miniconda/lib:$LD_LIBRARY_PATH
cd $W || exit 2
git checkout -q -- . && git clean -fdq -e target
run() { cargo test --workspace --offline 2>&1 | grep -E "^test result|^test .* FAILED|error(\[|:)" | awk '/^test result/ {p+=$4; f+=$6} /FAILED/ {print} /^error/ {print} END {print "passed",p,"failed",f}'; }
git apply $O/patch$N.diff || { echo "patch does not apply"; exit 2; }
echo "== patch only:"; run
git apply $O/demo$N.diff || { echo "demo does not apply"; exit 2; }
echo "== patch + demo:"; run
git apply -R $O/patch$N.diff || exit 2
echo "== demo only:"; run
git checkout -q -- . && git clean -fdq -e target
