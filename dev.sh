#!/bin/sh
# dev loop: ./dev.sh <driver> <TraceSpec> [seed] [tier]  -> builds, records, validates, summarises tags
set -e
D=$1; S=$2; SEED=${3:-1}; TIER=${4:-quick}
(cd /verif/harness && cargo build --offline 2>&1 | grep -E "^error" -A12 | head -40)
[ -n "$NOREC" ] || /verif/harness/target/debug/vh $D --seed $SEED --tier $TIER --out /verif/out/traces/$D.ndjson | cut -c1-400
cd /verif/spec
TRACE=/verif/out/traces/$D.ndjson timeout 1800 java -XX:+UseParallelGC -Xss1g -Xmx4g -Dtlc2.tool.queue.IStateQueue=StateDeque -Dtlc2.overrides.TLCOverrides=tlc2.overrides.TLCOverrides:verif.Overrides -cp /verif/spec/classes:/opt/veriftools/tla/tla2tools.jar:/opt/veriftools/tla/CommunityModules-deps.jar tlc2.TLC -workers 1 -metadir /verif/out/tlc/dev_$D -cleanup -noGenerateSpecTE -config $S.cfg $S.tla > /tmp/dev_$D.out 2>&1 || true
grep '"TAG"' /tmp/dev_$D.out | sed 's/<<"TAG", [0-9]*, \([0-9]*\), \(.*\)>>/\1 \2/' | sort | uniq -c | sort -k2n | head -60
grep '"KNOWN"' /tmp/dev_$D.out | sed 's/<<"KNOWN", [0-9]*, \([0-9]*\), \(.*\)>>/\1 \2/' | sort | uniq -c | sort -k2n | head -20
grep "CONSUMED\|Error\|error" /tmp/dev_$D.out | head -20
