#!/bin/sh
# Builds the framework from files on disk only (offline).
set -e
cd "$(dirname "$0")"
export CARGO_NET_OFFLINE=true
mkdir -p spec/classes out evidence
javac -cp /opt/veriftools/tla/tla2tools.jar -d spec/classes spec/java/verif/*.java
(cd harness && cargo build --offline 2>&1 | tail -3)
echo "setup ok"
