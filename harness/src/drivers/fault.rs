//! C20 / C14: fault enumeration. For each message kind (in its interesting shapes) the world is rebuilt
//! deterministically, the k-th internal bank / token-factory call the message makes is failed
//! (k = 1..n+1), and the whole-chain digest and the projected state are compared with the pre-state
//! and with the fault-free run. After a failure the same message is repeated without fault.
use crate::drivers::farm::{funds_json, zero_fees};
use crate::drivers::pool::fees;
use crate::project::*;
use crate::sys::*;
use crate::trace::*;
use cosmwasm_std::{coin, Addr, Coin, Decimal};
use mantra_dex_std::farm_manager as fm;
use mantra_dex_std::pool_manager as pm;
use rand::rngs::StdRng;
use rand::Rng;
use serde_json::{json, Value};

pub enum Target {
    Pm(pm::ExecuteMsg),
    Fm(fm::ExecuteMsg),
}
pub struct Case {
    pub kind: String,
    pub sender: Addr,
    pub target: Target,
    pub funds: Vec<Coin>,
}
fn sorted(mut v: Vec<Coin>) -> Vec<Coin> {
    v.sort_by(|a, b| a.denom.cmp(&b.denom));
    v
}
fn provide(pool: &str, lock: Option<u64>, lock_id: Option<&str>, slip: Option<Decimal>) -> pm::ExecuteMsg {
    pm::ExecuteMsg::ProvideLiquidity {
        liquidity_max_slippage: None,
        swap_max_slippage: slip,
        receiver: None,
        pool_identifier: pool.into(),
        unlocking_duration: lock,
        lock_position_identifier: lock_id.map(|s| s.to_string()),
    }
}

/// deterministic world: pools with fees, farms (two of them expired later), positions of two users
pub fn world(variant: u64) -> Sys {
    let mut s = Sys::new(SysCfg::default());
    let o = s.users[0].clone();
    let cf = vec![coin(8888, "uom"), coin(1000, "uusd")];
    let mk = |s: &mut Sys, d: [&str; 2], decs: [u8; 2], f, ty, id: &str| {
        let o = s.users[0].clone();
        s.exec_pm(&o, &pm::ExecuteMsg::CreatePool { asset_denoms: vec![d[0].into(), d[1].into()], asset_decimals: decs.to_vec(), pool_fees: f, pool_type: ty, pool_identifier: Some(id.into()) },
                  &[coin(8888, "uom"), coin(1000, "uusd")]).unwrap();
    };
    let _ = cf;
    mk(&mut s, ["uusdc", "uusdt"], [6, 6], fees(100, 200, 50, &[30]), pm::PoolType::ConstantProduct, "cp1");
    mk(&mut s, ["uusdt", "uweth"], [6, 18], fees(300, 0, 100, &[]), pm::PoolType::ConstantProduct, "cp2");
    mk(&mut s, ["uusd", "uusdc"], [6, 6], fees(30, 40, 10, &[5]), pm::PoolType::StableSwap { amp: 100 }, "ss1");
    mk(&mut s, ["uom", "uusd"], [6, 6], zero_fees(), pm::PoolType::ConstantProduct, "empty");
    let lp = s.users[1].clone();
    let d6 = 1_000_000u128;
    let v = 1 + variant as u128 % 7;
    s.exec_pm(&lp, &provide("o.cp1", None, None, None), &sorted(vec![coin(5_000_000 * d6 + v, "uusdc"), coin(7_000_000 * d6 + 13, "uusdt")])).unwrap();
    s.exec_pm(&lp, &provide("o.cp2", None, None, None), &sorted(vec![coin(3_000_000 * d6, "uusdt"), coin(1_000_000_000_000_000_000_007 + v, "uweth")])).unwrap();
    s.exec_pm(&lp, &provide("o.ss1", None, None, None), &sorted(vec![coin(1_000_000 * d6, "uusd"), coin(1_100_000 * d6 + v, "uusdc")])).unwrap();
    // LP for users 2..4 of cp1
    for ui in 2..5 {
        let u = s.users[ui].clone();
        s.exec_pm(&u, &provide("o.cp1", None, None, None), &sorted(vec![coin(5_000 * d6, "uusdc"), coin(7_000 * d6, "uusdt")])).unwrap();
    }
    let lpd = s.lp_denom("o.cp1");
    s.track_denom(&lpd);
    // farms on LP:o.cp1: two short ones by u4,u5 (expire later) paying uweth and uusd
    let (u3, u4, u5) = (s.users[2].clone(), s.users[3].clone(), s.users[4].clone());
    let farm = |s: &mut Sys, who: &Addr, id: &str, start: u64, end: u64, c: Coin| {
        let fa = s.farm.clone();
        s.exec(who, &fa, &fm::ExecuteMsg::ManageFarm { action: fm::FarmAction::Create { params: fm::FarmParams {
            lp_denom: lpd.clone(), start_epoch: Some(start), preliminary_end_epoch: Some(end), curve: None, farm_asset: c.clone(), farm_identifier: Some(id.into()) } } },
            &sorted(vec![c, coin(1000, "uom")])).unwrap();
    };
    farm(&mut s, &u4, "f1", 1, 5, coin(8000, "uweth"));
    let second_owner = if variant % 2 == 1 { u4.clone() } else { u5.clone() };
    farm(&mut s, &second_owner, "f2", 1, 5, coin(12000 + v, "uusd"));
    if variant >= 1000 {
        // the owner raises the limit to twelve farms per LP token; ten more short farms, all expiring together with f1 and f2
        let fa = s.farm.clone();
        s.exec(&o, &fa, &fm::ExecuteMsg::UpdateConfig { fee_collector_addr: None, epoch_manager_addr: None, pool_manager_addr: None, create_farm_fee: None,
            max_concurrent_farms: Some(12), max_farm_epoch_buffer: None, min_unlocking_duration: None, max_unlocking_duration: None, farm_expiration_time: None,
            emergency_unlock_penalty: None }, &[]).unwrap();
        for k in 3..=12u128 {
            let who = if k % 2 == 0 { u4.clone() } else { u5.clone() };
            farm(&mut s, &who, &format!("f{k:02}"), 1, 5, coin(6000 + k, "uusdt"));
        }
    }
    let fa = s.farm.clone();
    s.exec(&u3, &fa, &fm::ExecuteMsg::ManagePosition { action: fm::PositionAction::Create { identifier: Some("carol".into()), unlocking_duration: YEAR, receiver: None } }, &[coin(100_000, lpd.clone())]).unwrap();
    s.exec(&lp, &fa, &fm::ExecuteMsg::ManagePosition { action: fm::PositionAction::Create { identifier: Some("bob".into()), unlocking_duration: DAY, receiver: None } }, &[coin(300_000, lpd.clone())]).unwrap();
    s.exec(&lp, &fa, &fm::ExecuteMsg::ManagePosition { action: fm::PositionAction::Create { identifier: Some("bobc".into()), unlocking_duration: DAY, receiver: None } }, &[coin(5_000, lpd.clone())]).unwrap();
    s.exec(&lp, &fa, &fm::ExecuteMsg::ManagePosition { action: fm::PositionAction::Close { identifier: "u-bobc".into(), lp_asset: None } }, &[]).unwrap();
    s.advance(3 * DAY);
    let _ = o;
    s
}

pub fn cases(s: &Sys) -> Vec<Case> {
    let (u2, u3, u4) = (s.users[1].clone(), s.users[2].clone(), s.users[3].clone());
    let lpd = s.lp_denom("o.cp1");
    let half = Some(Decimal::percent(50));
    let hop = |p: &str, i: &str, o: &str| pm::SwapOperation::MantraSwap { token_in_denom: i.into(), token_out_denom: o.into(), pool_identifier: p.into() };
    let d6 = 1_000_000u128;
    vec![
        Case { kind: "pm_swap".into(), sender: u3.clone(), target: Target::Pm(pm::ExecuteMsg::Swap { ask_asset_denom: "uusdt".into(), belief_price: None, max_slippage: half, receiver: Some(u4.to_string()), pool_identifier: "o.cp1".into() }), funds: vec![coin(50_000 * d6, "uusdc")] },
        Case { kind: "pm_route3".into(), sender: u3.clone(), target: Target::Pm(pm::ExecuteMsg::ExecuteSwapOperations { operations: vec![hop("o.ss1", "uusd", "uusdc"), hop("o.cp1", "uusdc", "uusdt"), hop("o.cp2", "uusdt", "uweth")], minimum_receive: None, receiver: None, max_slippage: half }), funds: vec![coin(20_000 * d6, "uusd")] },
        Case { kind: "pm_provide".into(), sender: u3.clone(), target: Target::Pm(provide("o.cp1", None, None, None)), funds: sorted(vec![coin(5_000 * d6, "uusdc"), coin(7_000 * d6, "uusdt")]) },
        Case { kind: "pm_provide_first".into(), sender: u3.clone(), target: Target::Pm(provide("o.empty", None, None, None)), funds: sorted(vec![coin(5_000 * d6, "uom"), coin(7_000 * d6, "uusd")]) },
        Case { kind: "pm_provide_lock_new".into(), sender: u3.clone(), target: Target::Pm(provide("o.cp1", Some(DAY), None, None)), funds: sorted(vec![coin(5_000 * d6, "uusdc"), coin(7_000 * d6, "uusdt")]) },
        Case { kind: "pm_provide_lock_expand".into(), sender: u3.clone(), target: Target::Pm(provide("o.cp1", Some(YEAR), Some("u-carol"), None)), funds: sorted(vec![coin(5_000 * d6, "uusdc"), coin(7_000 * d6, "uusdt")]) },
        Case { kind: "pm_provide_single".into(), sender: u3.clone(), target: Target::Pm(provide("o.cp1", None, None, half)), funds: vec![coin(10_001 * d6 + 1, "uusdc")] },
        Case { kind: "pm_provide_single_lock".into(), sender: u3.clone(), target: Target::Pm(provide("o.cp1", Some(7 * DAY), None, half)), funds: vec![coin(10_001 * d6, "uusdt")] },
        Case { kind: "pm_provide_single_lock_expand".into(), sender: u3.clone(), target: Target::Pm(provide("o.cp1", Some(YEAR), Some("u-carol"), half)), funds: vec![coin(777 * d6, "uusdc")] },
        Case { kind: "pm_provide_single_ss".into(), sender: u3.clone(), target: Target::Pm(provide("o.ss1", None, None, half)), funds: vec![coin(10_001 * d6, "uusd")] },
        Case { kind: "pm_withdraw".into(), sender: u3.clone(), target: Target::Pm(pm::ExecuteMsg::WithdrawLiquidity { pool_identifier: "o.cp1".into() }), funds: vec![coin(1_000_000, lpd.clone())] },
        Case { kind: "pm_create_pool".into(), sender: u3.clone(), target: Target::Pm(pm::ExecuteMsg::CreatePool { asset_denoms: vec!["uom".into(), "uweth".into()], asset_decimals: vec![6, 18], pool_fees: zero_fees(), pool_type: pm::PoolType::ConstantProduct, pool_identifier: Some("new".into()) }), funds: sorted(vec![coin(8888, "uom"), coin(1000, "uusd")]) },
        Case { kind: "fm_claim_two_denoms".into(), sender: u3.clone(), target: Target::Fm(fm::ExecuteMsg::Claim { until_epoch: None }), funds: vec![] },
        Case { kind: "fm_emergency_two_owners".into(), sender: u3.clone(), target: Target::Fm(fm::ExecuteMsg::ManagePosition { action: fm::PositionAction::Withdraw { identifier: "u-carol".into(), emergency_unlock: Some(true) } }), funds: vec![] },
        Case { kind: "fm_withdraw_unlocked".into(), sender: u2.clone(), target: Target::Fm(fm::ExecuteMsg::ManagePosition { action: fm::PositionAction::Withdraw { identifier: "u-bobc".into(), emergency_unlock: None } }), funds: vec![] },
        Case { kind: "fm_pos_create".into(), sender: u4.clone(), target: Target::Fm(fm::ExecuteMsg::ManagePosition { action: fm::PositionAction::Create { identifier: None, unlocking_duration: DAY, receiver: None } }), funds: vec![coin(1234, lpd.clone())] },
        Case { kind: "fm_close_farm".into(), sender: u4.clone(), target: Target::Fm(fm::ExecuteMsg::ManageFarm { action: fm::FarmAction::Close { farm_identifier: "m-f1".into() } }), funds: vec![] },
        Case { kind: "fm_expand_farm".into(), sender: u4.clone(), target: Target::Fm(fm::ExecuteMsg::ManageFarm { action: fm::FarmAction::Expand { params: fm::FarmParams { lp_denom: lpd.clone(), start_epoch: None, preliminary_end_epoch: None, curve: None, farm_asset: coin(4000, "uweth"), farm_identifier: Some("m-f1".into()) } } }), funds: vec![coin(4000, "uweth")] },
    ]
}
/// create_farm after both farms expired: closes them automatically (refunds are reply_on_error) and refunds the fee overpayment
fn case_create_autoclose(s: &Sys) -> Case {
    let lpd = s.lp_denom("o.cp1");
    Case { kind: "fm_create_farm_autoclose2".into(), sender: s.users[2].clone(), target: Target::Fm(fm::ExecuteMsg::ManageFarm { action: fm::FarmAction::Create { params: fm::FarmParams {
        lp_denom: lpd, start_epoch: None, preliminary_end_epoch: None, curve: None, farm_asset: coin(5000, "uusdt"), farm_identifier: Some("f3".into()) } } }),
        funds: sorted(vec![coin(5000, "uusdt"), coin(1500, "uom")]) }
}

/// as above, but the new farm re-uses the identifier of one of the expired farms closed in the same transaction
fn case_create_autoclose_same_id(s: &Sys) -> Case {
    let mut c = case_create_autoclose(s);
    c.kind = "fm_create_farm_autoclose2_same_id".into();
    if let Target::Fm(fm::ExecuteMsg::ManageFarm { action: fm::FarmAction::Create { params } }) = &mut c.target {
        params.farm_identifier = Some("f1".into());
    }
    c
}

/// twelve expired farms closed by one creation (the limit was raised to twelve): a failing refund of any of them is tolerated
fn case_create_autoclose12(s: &Sys) -> Case {
    let mut c = case_create_autoclose(s);
    c.kind = "fm_create_farm_autoclose12".into();
    c
}

fn exec_case(s: &mut Sys, c: &Case) -> anyhow::Result<cw_multi_test::AppResponse> {
    match &c.target {
        Target::Pm(m) => { let a = s.pool.clone(); s.exec(&c.sender, &a, m, &c.funds) }
        Target::Fm(m) => { let a = s.farm.clone(); s.exec(&c.sender, &a, m, &c.funds) }
    }
}
fn calls_json(s: &Sys, log: &[Value]) -> Value {
    Value::Array(log.iter().map(|c| {
        let coins: Vec<Value> = c["coins"].as_array().cloned().unwrap_or_default().iter().map(|x| json!({"d": s.dsym(x["d"].as_str().unwrap()), "a": limbs_str(x["a"].as_str().unwrap())})).collect();
        json!({"m": c["m"], "from": s.sym_of(c["from"].as_str().unwrap_or("")), "to": if c["to"] == "none" { "none".to_string() } else { s.sym_of(c["to"].as_str().unwrap_or("")) }, "coins": coins})
    }).collect())
}

fn run_case(t: &mut Tracer, variant: u64, extra_time: u64, pick: &dyn Fn(&Sys) -> Case) {
    let mask = Mask { pools: true, farms: true, epoch: true, owners: false };
    // baseline: no fault, count the internal calls
    let mut s = world(variant);
    if extra_time > 0 { s.advance(extra_time); }
    let c = pick(&s);
    let pre = s.snapshot(mask);
    s.arm(None);
    let r0 = exec_case(&mut s, &c);
    let (n, log) = s.disarm();
    let base_post = s.snapshot(mask);
    let calls = calls_json(&s, &log);
    let farms_closed: Vec<Value> = {
        // farms present before and absent after the fault-free run, with their remainder at the time
        let b = pre["fm"]["farms"].as_object().cloned().unwrap_or_default();
        let a = base_post["fm"]["farms"].as_object().cloned().unwrap_or_default();
        // a farm is closed if it disappeared, or if another farm took over its identifier (owner / budget / epochs differ)
        b.iter().filter(|(k, v)| match a.get(*k) { None => true, Some(w) => w["owner"] != v["owner"] || w["start"] != v["start"] || w["amount"] != v["amount"] || w["denom"] != v["denom"] }).map(|(k, v)| json!({"id": k, "owner": v["owner"], "denom": v["denom"], "amount": v["amount"], "claimed": v["claimed"]})).collect()
    };
    t.emit("fault_base", json!({"kind": c.kind, "variant": variant, "sender": s.sym_of(c.sender.as_str()), "funds": funds_json(&s, &c.funds),
        "single": c.kind.starts_with("pm_provide_single"), "ok": r0.is_ok(), "ncalls": n, "calls": calls, "pre": pre, "post": base_post, "closed": farms_closed,
        "errtext": r0.as_ref().err().map(err_text).unwrap_or_default()}));
    if r0.is_err() { return; }
    for k in 1..=n + 1 {
        let mut s = world(variant);
        if extra_time > 0 { s.advance(extra_time); }
        let c = pick(&s);
        let d0 = s.digest();
        s.arm(Some(k));
        let r = exec_case(&mut s, &c);
        let (seen, _) = s.disarm();
        let d1 = s.digest();
        let post = s.snapshot(mask);
        // repeat without fault after a failure
        let mut retry = json!({"done": false});
        if r.is_err() {
            let r2 = exec_case(&mut s, &c);
            retry = json!({"done": true, "ok": r2.is_ok(), "post": s.snapshot(mask)});
        }
        t.emit("fault", json!({"kind": c.kind, "variant": variant, "k": k, "ncalls": n, "seen": seen, "ok": r.is_ok(),
            "err": r.as_ref().err().map(err_class).unwrap_or("none".into()), "digest_same": d0 == d1, "post": post, "retry": retry}));
    }
}

pub fn run(rng: &mut StdRng, thorough: bool, t: &mut Tracer) {
    t.reset("fault", json!({}));
    let ncases = cases(&world(0)).len();
    // even variants: distinct farm owners; odd variants: one owner for both expiring farms
    let variants: Vec<u64> = if thorough { (0..6).map(|k| rng.gen_range(0..500) * 2 + k % 2).collect() } else { vec![0, rng.gen_range(0..500) * 2 + 1] };
    for v in variants {
        for i in 0..ncases {
            run_case(t, v, 0, &move |s: &Sys| cases(s).into_iter().nth(i).unwrap());
        }
        // 40 days later both farms have expired
        run_case(t, v, 40 * DAY, &case_create_autoclose);
        run_case(t, v, 40 * DAY, &case_create_autoclose_same_id);
        run_case(t, v, 40 * DAY, &move |s: &Sys| cases(s).into_iter().find(|c| c.kind == "fm_close_farm").unwrap());
    }
    run_case(t, 1000, 40 * DAY, &case_create_autoclose12);
}
