//! Farm-manager drivers: hand-picked scenarios (boundaries, witnesses of earlier findings) followed by
//! seeded random histories. Every executed message becomes one trace event carrying the arguments,
//! the outcome and the full projected post-state; nothing is judged here.
use crate::project::*;
use crate::sys::*;
use crate::trace::*;
use cosmwasm_std::{coin, Addr, Coin, Decimal, Uint128};
use mantra_dex_std::farm_manager as fm;
use mantra_dex_std::fee::{Fee, PoolFee};
use mantra_dex_std::pool_manager as pm;
use rand::rngs::StdRng;
use rand::seq::SliceRandom;
use rand::Rng;
use serde_json::{json, Value};

pub struct W<'a> {
    pub s: Sys,
    pub t: &'a mut Tracer,
    pub lps: Vec<String>, // real LP denoms
    pub mask: Mask,
    /// when replaying a TLC behaviour: the model's step (and prediction), attached to the next event
    pub model_note: Option<Value>,
}

pub fn funds_json(s: &Sys, f: &[Coin]) -> Value {
    Value::Array(
        f.iter()
            .map(|c| json!({"d": s.dsym(&c.denom), "a": u(c.amount)}))
            .collect(),
    )
}
fn opt_s(o: &Option<String>) -> Value {
    match o {
        Some(x) => json!(x),
        None => json!("none"),
    }
}
fn opt_u(o: Option<u64>) -> Value {
    match o {
        Some(x) => json!(x.min(1_000_000_000)), // TLC integers are 32 bit (saturating projection, as for the stored epochs)
        None => json!(-1),
    }
}

pub fn zero_fees() -> PoolFee {
    PoolFee {
        protocol_fee: Fee { share: Decimal::zero() },
        swap_fee: Fee { share: Decimal::zero() },
        burn_fee: Fee { share: Decimal::zero() },
        extra_fees: vec![],
    }
}

impl<'a> W<'a> {
    /// a world with `npools` constant-product pools whose LP tokens are distributed to users u2..u5
    pub fn new(cfg: SysCfg, npools: usize, t: &'a mut Tracer, name: &str) -> W<'a> {
        Self::new_ids(cfg, &["a", "b", "c"][..npools], t, name)
    }
    /// as `new`, with the pools' identifiers chosen by the scenario (e.g. identifiers that differ only by letter case)
    pub fn new_ids(cfg: SysCfg, ids: &[&str], t: &'a mut Tracer, name: &str) -> W<'a> {
        let npools = ids.len();
        let mut s = Sys::new(cfg);
        let mut lps = vec![];
        let pairs = [("uusdc", "uusdt"), ("uusd", "uweth"), ("uom", "uusdc")];
        let owner = s.users[0].clone();
        let mut fee_funds = vec![s.cfg.pool_fee.clone()];
        for c in s.cfg.tf_fee.clone() {
            if let Some(x) = fee_funds.iter_mut().find(|x| x.denom == c.denom) {
                x.amount += c.amount;
            } else {
                fee_funds.push(c);
            }
        }
        fee_funds.retain(|c| !c.amount.is_zero());
        fee_funds.sort_by(|a, b| a.denom.cmp(&b.denom));
        for k in 0..npools {
            s.exec_pm(
                &owner,
                &pm::ExecuteMsg::CreatePool {
                    asset_denoms: vec![pairs[k].0.into(), pairs[k].1.into()],
                    asset_decimals: vec![6, 6],
                    pool_fees: zero_fees(),
                    pool_type: pm::PoolType::ConstantProduct,
                    pool_identifier: Some(ids[k].into()),
                },
                &fee_funds,
            )
            .unwrap();
            let lp = s.lp_denom(&format!("o.{}", ids[k]));
            s.track_denom(&lp);
            for ui in 1..NUSERS {
                let who = s.users[ui].clone();
                let mut f = vec![coin(10_000_000_000, pairs[k].0), coin(10_000_000_000, pairs[k].1)];
                f.sort_by(|a, b| a.denom.cmp(&b.denom));
                s.exec_pm(
                    &who,
                    &pm::ExecuteMsg::ProvideLiquidity {
                        liquidity_max_slippage: None,
                        swap_max_slippage: None,
                        receiver: None,
                        pool_identifier: format!("o.{}", ids[k]),
                        unlocking_duration: None,
                        lock_position_identifier: None,
                    },
                    &f,
                )
                .unwrap();
            }
            lps.push(lp);
        }
        let mask = Mask::farm();
        let st = s.snapshot(mask);
        t.reset(name, st);
        W { s, t, lps, mask, model_note: None }
    }
    pub fn user(&self, i: usize) -> Addr {
        self.s.users[i].clone()
    }
    /// a plain bank transfer between two tracked accounts (e.g. LP handed to the pool manager's address)
    pub fn bank_send(&mut self, from: &Addr, to: &Addr, c: Coin) {
        use cw_multi_test::Executor;
        let r = self.s.app.execute(from.clone(), cosmwasm_std::BankMsg::Send { to_address: to.to_string(), amount: vec![c.clone()] }.into());
        let body = json!({"sender": self.s.sym_of(from.as_str()), "to": self.s.sym_of(to.as_str()), "funds": funds_json(&self.s, &[c])});
        self.finish("bank_send", body, &r);
    }
    pub fn who(&self, sym: &str) -> Addr {
        self.s.addr_of(sym)
    }
    fn finish(&mut self, ev: &str, mut body: Value, r: &anyhow::Result<cw_multi_test::AppResponse>) -> bool {
        let post = self.s.snapshot(self.mask);
        let o = body.as_object_mut().unwrap();
        o.insert("ok".into(), json!(r.is_ok()));
        o.insert("err".into(), json!(r.as_ref().err().map(err_class).unwrap_or("none".into())));
        if let Err(e) = r {
            o.insert("errtext".into(), json!(err_text(e)));
        }
        o.insert("post".into(), post);
        match self.model_note.take() {
            Some(m) => { o.insert("model".into(), json!({"set": true, "paid": m.get("paid").cloned().unwrap_or(json!(-1)), "denom": m.get("denom").cloned().unwrap_or(json!("none"))})); }
            None => { o.insert("model".into(), json!({"set": false})); }
        }
        self.t.emit(ev, body);
        r.is_ok()
    }
    pub fn advance(&mut self, secs: u64) {
        self.s.advance(secs);
        let post = self.s.snapshot(self.mask);
        self.t.emit("advance", json!({"secs": limbs64(secs), "post": post}));
    }
    pub fn fm_exec(&mut self, sender: &Addr, m: &fm::ExecuteMsg, f: &[Coin]) -> anyhow::Result<cw_multi_test::AppResponse> {
        let fa = self.s.farm.clone();
        self.s.exec(sender, &fa, m, f)
    }
    #[allow(clippy::too_many_arguments)]
    pub fn create_farm(&mut self, sender: &Addr, lp: &str, start: Option<u64>, end: Option<u64>, asset: Coin, fid: Option<String>, funds: &[Coin]) -> bool {
        let m = fm::ExecuteMsg::ManageFarm {
            action: fm::FarmAction::Create {
                params: fm::FarmParams {
                    lp_denom: lp.to_string(),
                    start_epoch: start,
                    preliminary_end_epoch: end,
                    curve: None,
                    farm_asset: asset.clone(),
                    farm_identifier: fid.clone(),
                },
            },
        };
        let r = self.fm_exec(sender, &m, funds);
        let body = json!({"sender": self.s.sym_of(sender.as_str()), "lp": self.s.dsym(lp), "start": opt_u(start), "end": opt_u(end),
            "denom": self.s.dsym(&asset.denom), "amt": u(asset.amount), "fid": opt_s(&fid), "funds": funds_json(&self.s, funds)});
        self.finish("fm_create_farm", body, &r)
    }
    pub fn expand_farm(&mut self, sender: &Addr, fid: &str, lp: &str, asset: Coin, funds: &[Coin]) -> bool {
        let m = fm::ExecuteMsg::ManageFarm {
            action: fm::FarmAction::Expand {
                params: fm::FarmParams {
                    lp_denom: lp.to_string(),
                    start_epoch: None,
                    preliminary_end_epoch: None,
                    curve: None,
                    farm_asset: asset.clone(),
                    farm_identifier: Some(fid.to_string()),
                },
            },
        };
        let r = self.fm_exec(sender, &m, funds);
        let body = json!({"sender": self.s.sym_of(sender.as_str()), "fid": fid, "lp": self.s.dsym(lp),
            "denom": self.s.dsym(&asset.denom), "amt": u(asset.amount), "funds": funds_json(&self.s, funds)});
        self.finish("fm_expand_farm", body, &r)
    }
    pub fn close_farm(&mut self, sender: &Addr, fid: &str, funds: &[Coin]) -> bool {
        let m = fm::ExecuteMsg::ManageFarm { action: fm::FarmAction::Close { farm_identifier: fid.to_string() } };
        let r = self.fm_exec(sender, &m, funds);
        let body = json!({"sender": self.s.sym_of(sender.as_str()), "fid": fid, "funds": funds_json(&self.s, funds)});
        self.finish("fm_close_farm", body, &r)
    }
    pub fn pos_create(&mut self, sender: &Addr, pid: Option<String>, dur: u64, receiver: Option<Addr>, funds: &[Coin]) -> bool {
        let m = fm::ExecuteMsg::ManagePosition {
            action: fm::PositionAction::Create { identifier: pid.clone(), unlocking_duration: dur, receiver: receiver.as_ref().map(|a| a.to_string()) },
        };
        let r = self.fm_exec(sender, &m, funds);
        let body = json!({"sender": self.s.sym_of(sender.as_str()), "pid": opt_s(&pid), "dur": limbs64(dur),
            "receiver": receiver.as_ref().map(|a| self.s.sym_of(a.as_str())).unwrap_or("none".into()), "funds": funds_json(&self.s, funds)});
        self.finish("fm_pos_create", body, &r)
    }
    pub fn pos_expand(&mut self, sender: &Addr, pid: &str, funds: &[Coin]) -> bool {
        let m = fm::ExecuteMsg::ManagePosition { action: fm::PositionAction::Expand { identifier: pid.to_string() } };
        let r = self.fm_exec(sender, &m, funds);
        let body = json!({"sender": self.s.sym_of(sender.as_str()), "pid": pid, "funds": funds_json(&self.s, funds)});
        self.finish("fm_pos_expand", body, &r)
    }
    pub fn pos_close(&mut self, sender: &Addr, pid: &str, partial: Option<Coin>, funds: &[Coin]) -> bool {
        let m = fm::ExecuteMsg::ManagePosition { action: fm::PositionAction::Close { identifier: pid.to_string(), lp_asset: partial.clone() } };
        let r = self.fm_exec(sender, &m, funds);
        let body = json!({"sender": self.s.sym_of(sender.as_str()), "pid": pid, "funds": funds_json(&self.s, funds),
            "partial": match &partial { Some(c) => json!({"set": true, "d": self.s.dsym(&c.denom), "a": u(c.amount)}), None => json!({"set": false}) }});
        self.finish("fm_pos_close", body, &r)
    }
    pub fn pos_withdraw(&mut self, sender: &Addr, pid: &str, emergency: Option<bool>, funds: &[Coin]) -> bool {
        let m = fm::ExecuteMsg::ManagePosition { action: fm::PositionAction::Withdraw { identifier: pid.to_string(), emergency_unlock: emergency } };
        let r = self.fm_exec(sender, &m, funds);
        let body = json!({"sender": self.s.sym_of(sender.as_str()), "pid": pid, "emergency": emergency.unwrap_or(false), "funds": funds_json(&self.s, funds)});
        self.finish("fm_pos_withdraw", body, &r)
    }
    pub fn q_rewards(&self, who: &Addr, until: Option<u64>) -> Value {
        let r: Result<fm::RewardsResponse, String> = self.s.query(&self.s.farm, &fm::QueryMsg::Rewards { address: who.to_string(), until_epoch: until });
        match r {
            Ok(fm::RewardsResponse::RewardsResponse { total_rewards, .. }) => json!({"ok": true, "total": funds_json(&self.s, &total_rewards)}),
            Ok(_) => json!({"ok": false, "total": []}),
            Err(_) => json!({"ok": false, "total": []}),
        }
    }
    pub fn claim(&mut self, sender: &Addr, until: Option<u64>, funds: &[Coin]) -> bool {
        let quote = self.q_rewards(sender, until);
        let m = fm::ExecuteMsg::Claim { until_epoch: until };
        let r = self.fm_exec(sender, &m, funds);
        let body = json!({"sender": self.s.sym_of(sender.as_str()), "until": opt_u(until), "quote": quote, "funds": funds_json(&self.s, funds)});
        self.finish("fm_claim", body, &r)
    }
    pub fn fm_update_config(&mut self, sender: &Addr, m: fm::ExecuteMsg, what: &str, funds: &[Coin]) -> bool {
        let r = self.fm_exec(sender, &m, funds);
        let body = json!({"sender": self.s.sym_of(sender.as_str()), "what": what, "funds": funds_json(&self.s, funds)});
        self.finish("fm_update_config", body, &r)
    }
    /// paginated farm-manager queries against the full listings
    pub fn pages(&mut self, limit: u32) {
        use mantra_dex_std::farm_manager::{FarmsBy, PositionsBy};
        // farms by LP denom
        for lp in self.lps.clone() {
            let all: Vec<String> = { let mut v: Vec<String> = self.s.q_farms().iter().filter(|f| f.lp_denom == lp).map(|f| f.identifier.clone()).collect(); v.sort(); v };
            let (mut paged, mut sizes, mut start_after) = (vec![], vec![], None::<String>);
            loop {
                let r: Result<fm::FarmsResponse, String> = self.s.query(&self.s.farm, &fm::QueryMsg::Farms { filter_by: Some(FarmsBy::LpDenom(lp.clone())), start_after: start_after.clone(), limit: Some(limit) });
                let Ok(r) = r else { break };
                if r.farms.is_empty() { break; }
                sizes.push(r.farms.len());
                start_after = Some(r.farms.last().unwrap().identifier.clone());
                paged.extend(r.farms.iter().map(|f| f.identifier.clone()));
                if paged.len() > 1000 { break; }
            }
            self.t.emit("q_pages", json!({"what": format!("farms of {}", self.s.dsym(&lp)), "limit": limit, "all": all, "paged": paged, "page_sizes": sizes}));
        }
        // farms by reward denom, and each farm by its identifier
        let every = self.s.q_farms();
        let mut denoms: Vec<String> = every.iter().map(|f| f.farm_asset.denom.clone()).collect();
        denoms.sort(); denoms.dedup();
        for d in denoms {
            let all: Vec<String> = { let mut v: Vec<String> = every.iter().filter(|f| f.farm_asset.denom == d).map(|f| f.identifier.clone()).collect(); v.sort(); v };
            let (mut paged, mut sizes, mut start_after) = (vec![], vec![], None::<String>);
            loop {
                let r: Result<fm::FarmsResponse, String> = self.s.query(&self.s.farm, &fm::QueryMsg::Farms { filter_by: Some(FarmsBy::FarmAsset(d.clone())), start_after: start_after.clone(), limit: Some(limit) });
                let Ok(r) = r else { break };
                if r.farms.is_empty() { break; }
                sizes.push(r.farms.len());
                start_after = Some(r.farms.last().unwrap().identifier.clone());
                paged.extend(r.farms.iter().map(|f| f.identifier.clone()));
                if paged.len() > 1000 { break; }
            }
            self.t.emit("q_pages", json!({"what": format!("farms paying {}", self.s.dsym(&d)), "limit": limit, "all": all, "paged": paged, "page_sizes": sizes}));
        }
        for f in every.iter().take(6) {
            let r: Result<fm::FarmsResponse, String> = self.s.query(&self.s.farm, &fm::QueryMsg::Farms { filter_by: Some(FarmsBy::Identifier(f.identifier.clone())), start_after: None, limit: Some(limit) });
            let got: Vec<String> = r.map(|r| r.farms.iter().filter(|g| *g == f).map(|g| g.identifier.clone()).collect()).unwrap_or_default();
            self.t.emit("q_pages", json!({"what": format!("farm {}", f.identifier), "limit": limit, "all": [f.identifier.clone()], "paged": got.clone(), "page_sizes": [got.len()]}));
        }
        for q in self.s.q_positions().iter().take(6) {
            let r: Result<fm::PositionsResponse, String> = self.s.query(&self.s.farm, &fm::QueryMsg::Positions { filter_by: Some(PositionsBy::Identifier(q.identifier.clone())), open_state: None, start_after: None, limit: Some(limit) });
            let got: Vec<String> = r.map(|r| r.positions.iter().filter(|g| *g == q).map(|g| g.identifier.clone()).collect()).unwrap_or_default();
            self.t.emit("q_pages", json!({"what": format!("position {}", q.identifier), "limit": limit, "all": [q.identifier.clone()], "paged": got.clone(), "page_sizes": [got.len()]}));
        }
        // positions by receiver and open state
        for ui in 1..NUSERS {
            let u = self.user(ui);
            for open in [true, false] {
                let all: Vec<String> = { let mut v: Vec<String> = self.s.q_positions().iter().filter(|p| p.receiver == u && p.open == open).map(|p| p.identifier.clone()).collect(); v.sort(); v };
                let (mut paged, mut sizes, mut start_after) = (vec![], vec![], None::<String>);
                loop {
                    let r: Result<fm::PositionsResponse, String> = self.s.query(&self.s.farm, &fm::QueryMsg::Positions { filter_by: Some(PositionsBy::Receiver(u.to_string())), open_state: Some(open), start_after: start_after.clone(), limit: Some(limit) });
                    let Ok(r) = r else { break };
                    if r.positions.is_empty() { break; }
                    sizes.push(r.positions.len());
                    start_after = Some(r.positions.last().unwrap().identifier.clone());
                    paged.extend(r.positions.iter().map(|p| p.identifier.clone()));
                    if paged.len() > 1000 { break; }
                }
                self.t.emit("q_pages", json!({"what": format!("positions of u{} open={open}", ui + 1), "limit": limit.min(10), "all": all, "paged": paged, "page_sizes": sizes}));
            }
        }
    }
    pub fn cur(&self) -> u64 {
        self.s.cur_epoch().unwrap_or(0)
    }
    pub fn fee_funds(&self, reward: &Coin) -> Vec<Coin> {
        let fee = self.s.q_fm_config().create_farm_fee;
        let mut v = vec![reward.clone()];
        if !fee.amount.is_zero() {
            if fee.denom == reward.denom {
                v[0].amount += fee.amount;
            } else {
                v.push(fee);
            }
        }
        v.sort_by(|a, b| a.denom.cmp(&b.denom));
        v
    }
}

fn upd_cfg(max_farms: Option<u32>, penalty: Option<Decimal>, fee: Option<Coin>, pm_addr: Option<String>) -> fm::ExecuteMsg {
    fm::ExecuteMsg::UpdateConfig {
        fee_collector_addr: None,
        epoch_manager_addr: None,
        pool_manager_addr: pm_addr,
        create_farm_fee: fee,
        max_concurrent_farms: max_farms,
        max_farm_epoch_buffer: None,
        min_unlocking_duration: None,
        max_unlocking_duration: None,
        farm_expiration_time: None,
        emergency_unlock_penalty: penalty,
    }
}

// ------------------------------------------------------------------------------------ fixed scenarios
/// witness of finding F1 (C06): open late, claim with an earlier until_epoch, then claim again
fn sc_claim_until_before_join(t: &mut Tracer) {
    let mut w = W::new(SysCfg::default(), 1, t, "claim_until_before_join");
    let lp = w.lps[0].clone();
    let (o, b, c) = (w.user(0), w.user(1), w.user(2));
    let f = w.fee_funds(&coin(8000, "uweth"));
    w.create_farm(&o, &lp, Some(1), Some(9), coin(8000, "uweth"), Some("f".into()), &f);
    w.pos_create(&b, Some("bob".into()), DAY, None, &[coin(100_000, lp.clone())]);
    for _ in 0..5 {
        w.advance(DAY);
    }
    w.pos_create(&c, Some("carol".into()), DAY, None, &[coin(100_000, lp.clone())]);
    w.claim(&c, Some(1), &[]);
    w.claim(&c, None, &[]);
    w.claim(&b, None, &[]);
    w.advance(DAY);
    w.claim(&c, None, &[]);
    w.claim(&b, None, &[]);
    // expand then claim in two steps with an `until` between
    w.pos_expand(&c, "u-carol", &[coin(50_000, lp.clone())]);
    w.advance(DAY);
    w.advance(DAY);
    let cur = w.cur();
    w.claim(&c, Some(cur - 1), &[]);
    w.claim(&c, None, &[]);
    w.claim(&b, Some(cur - 1), &[]);
    w.claim(&b, Some(cur), &[]);
}

/// witness of finding F2 (C10): piecewise top-ups with a fractional multiplier, then a full close
fn sc_piecewise_topup_then_close(t: &mut Tracer) {
    let mut w = W::new(SysCfg::default(), 1, t, "piecewise_topup_then_close");
    let lp = w.lps[0].clone();
    let (b, c) = (w.user(1), w.user(2));
    w.pos_create(&c, Some("carol".into()), DAY, None, &[coin(1000, lp.clone())]);
    w.pos_create(&b, Some("bob".into()), 15778463, None, &[coin(1, lp.clone())]);
    for _ in 0..9 {
        w.pos_expand(&b, "u-bob", &[coin(1, lp.clone())]);
    }
    w.pos_create(&b, Some("bobsmall".into()), 15778463, None, &[coin(1, lp.clone())]); // stays open while the pieced one is closed
    w.pos_close(&b, "u-bob", None, &[]);
    w.advance(DAY);
    // partial closes of a position built in pieces
    w.pos_create(&b, Some("bob2".into()), 15778463, None, &[coin(3, lp.clone())]);
    w.pos_expand(&b, "u-bob2", &[coin(7, lp.clone())]);
    w.pos_close(&b, "u-bob2", Some(coin(1, lp.clone())), &[]);
    w.pos_close(&b, "u-bob2", Some(coin(5, lp.clone())), &[]);
    w.pos_close(&b, "u-bob2", None, &[]);
}

/// witness of finding F3 (C11): zero farm-creation fee
fn sc_zero_fee(t: &mut Tracer) {
    let mut w = W::new(SysCfg { farm_fee: coin(0, "uom"), ..Default::default() }, 2, t, "zero_fee");
    let lp = w.lps[0].clone();
    let lp2 = w.lps[1].clone();
    let o = w.user(0);
    w.create_farm(&o, &lp, Some(1), Some(9), coin(8000, "uweth"), Some("f1".into()), &[coin(8000, "uweth")]);
    w.create_farm(&o, &lp, Some(1), Some(9), coin(8000, "uweth"), Some("f2".into()), &[coin(777, "uusd"), coin(8000, "uweth")]);
    w.create_farm(&o, &lp, Some(1), Some(9), coin(8000, "uom"), Some("f3".into()), &[coin(8000, "uom")]);
    // the other LP token has no farm yet, so the limit of two farms cannot be the reason for a refusal
    w.create_farm(&o, &lp2, Some(1), Some(9), coin(8000, "uom"), Some("f4".into()), &[coin(8001, "uom")]);
    w.create_farm(&o, &lp2, Some(1), Some(9), coin(8000, "uom"), Some("f5".into()), &[coin(1000, "uom")]); // declared 8000, attached 1000
    w.create_farm(&o, &lp2, Some(1), Some(9), coin(8000, "uom"), Some("f6".into()), &[coin(7999, "uom")]);
    w.create_farm(&o, &lp2, Some(1), Some(9), coin(8000, "uom"), Some("f7".into()), &[coin(8000, "uom")]);
    // a waived fee in another denom than the reward: a coin of the fee denom sent along is an extra coin, not a fee
    w.create_farm(&o, &lp2, Some(1), Some(9), coin(8000, "uweth"), Some("f8".into()), &[coin(1000, "uom"), coin(8000, "uweth")]);
    // identifiers are unique across LP tokens: f1 lives on the first LP
    w.create_farm(&o, &lp2, Some(1), Some(9), coin(8000, "uweth"), Some("f1".into()), &[coin(8000, "uweth")]);
    w.create_farm(&o, &lp2, Some(1), Some(9), coin(8000, "uweth"), Some("f9".into()), &[coin(8000, "uweth")]);
    let b = w.user(1);
    w.pos_create(&b, Some("p".into()), DAY, None, &[coin(1000, lp.clone())]);
    w.advance(2 * DAY);
    w.claim(&b, None, &[]);
    w.close_farm(&o, "m-f1", &[]);
}

/// C11: fee configurations and over/under payment; farm limit; expiry and auto close
fn sc_farm_lifecycle(t: &mut Tracer, fee: Coin, reward_denom: &str, name: &str) {
    let mut w = W::new(SysCfg { farm_fee: fee.clone(), ..Default::default() }, 2, t, name);
    let lp = w.lps[0].clone();
    let lp2 = w.lps[1].clone();
    let (o, b, c, d) = (w.user(0), w.user(1), w.user(2), w.user(3));
    let reward = coin(8000, reward_denom);
    let exact = w.fee_funds(&reward);
    // under-payment of the fee, missing fee, extra coin, over-payment
    if !fee.amount.is_zero() {
        let mut under = exact.clone();
        for x in under.iter_mut() {
            if x.denom == fee.denom {
                x.amount -= Uint128::one();
            }
        }
        w.create_farm(&b, &lp, None, None, reward.clone(), Some("under".into()), &under);
        let mut over = exact.clone();
        for x in over.iter_mut() {
            if x.denom == fee.denom {
                x.amount += Uint128::new(500);
            }
        }
        w.create_farm(&b, &lp, None, None, reward.clone(), Some("over".into()), &over);
    }
    let mut extra = exact.clone();
    extra.push(coin(5, "uusdt"));
    extra.sort_by(|a, b| a.denom.cmp(&b.denom));
    w.create_farm(&b, &lp, None, None, reward.clone(), Some("extra".into()), &extra);
    w.create_farm(&b, &lp, None, None, reward.clone(), Some("noreward".into()), &[]);
    // invalid epochs
    w.create_farm(&b, &lp, Some(0), Some(5), reward.clone(), Some("past".into()), &exact);
    w.create_farm(&b, &lp, Some(3), Some(3), reward.clone(), Some("empty".into()), &exact);
    w.create_farm(&b, &lp, Some(20), Some(30), reward.clone(), Some("far".into()), &exact);
    w.create_farm(&b, "uusdc", None, None, reward.clone(), Some("notlp".into()), &exact);
    let small = coin(999, reward_denom);
    let sf = w.fee_funds(&small);
    w.create_farm(&b, &lp, None, None, small, Some("small".into()), &sf);
    // valid: explicit and generated ids, up to the limit of 2 per LP
    w.create_farm(&b, &lp, Some(1), Some(5), reward.clone(), Some("f1".into()), &exact);
    w.create_farm(&c, &lp, Some(2), Some(6), reward.clone(), None, &exact);
    w.create_farm(&d, &lp, Some(2), Some(6), reward.clone(), Some("f3".into()), &exact); // over the limit
    w.create_farm(&d, &lp2, Some(2), Some(6), reward.clone(), Some("f1".into()), &exact); // duplicate id
    w.create_farm(&d, &lp2, Some(2), Some(6), reward.clone(), Some("g1".into()), &exact);
    // positions so that claims interleave
    w.pos_create(&b, Some("bob".into()), DAY, None, &[coin(100_000, lp.clone())]);
    w.pos_create(&c, Some("carol".into()), 30 * DAY, None, &[coin(50_000, lp.clone())]);
    w.advance(DAY);
    w.advance(DAY);
    // expansion: owner only, multiple of the rate, right denom, attached funds equal
    let rate = 2000u128;
    w.expand_farm(&c, "m-f1", &lp, coin(2 * rate, reward_denom), &[coin(2 * rate, reward_denom)]); // not the owner
    w.expand_farm(&b, "m-f1", &lp, coin(rate + 1, reward_denom), &[coin(rate + 1, reward_denom)]); // not a multiple
    w.expand_farm(&b, "m-f1", &lp, coin(2 * rate, reward_denom), &[coin(rate, reward_denom)]); // funds mismatch
    w.expand_farm(&b, "m-f1", &lp, coin(2 * rate, "uusdt"), &[coin(2 * rate, "uusdt")]); // wrong denom
    w.expand_farm(&b, "m-f1", &lp, coin(2 * rate, reward_denom), &[coin(2 * rate, reward_denom)]); // ok
    w.claim(&b, None, &[]);
    w.advance(DAY);
    w.claim(&c, None, &[]);
    // closing: stranger refused; farm owner ok; contract owner ok
    w.close_farm(&d, "m-f1", &[]);
    w.close_farm(&b, "m-f1", &[coin(1, "uom")]); // funds attached
    w.close_farm(&b, "m-f1", &[]);
    w.close_farm(&o, "f-1", &[]);
    w.close_farm(&o, "f-1", &[]); // already closed
    w.claim(&b, None, &[]);
    // expiry: a farm that ended long ago is closed automatically by the next create on that LP
    w.create_farm(&b, &lp, None, Some(w.cur() + 3), reward.clone(), Some("h1".into()), &exact);
    w.create_farm(&c, &lp, None, Some(w.cur() + 3), reward.clone(), Some("h2".into()), &exact);
    w.advance(DAY);
    w.claim(&b, None, &[]);
    for _ in 0..4 {
        w.advance(DAY);
    }
    w.expand_farm(&b, "m-h1", &lp, coin(2666, reward_denom), &[coin(2666, reward_denom)]); // ended -> refused
    w.advance(31 * DAY);
    w.close_farm(&d, "m-h1", &[]); // expired farm of somebody else: still only its owner or the contract owner may close it
    w.close_farm(&c, "m-h1", &[]);
    w.create_farm(&d, &lp, None, None, reward.clone(), Some("late_not_expired".into()), &exact); // not yet expired -> limit
    w.advance(DAY);
    w.create_farm(&d, &lp, None, None, reward.clone(), Some("late".into()), &exact); // expired -> auto close of h1,h2
    w.claim(&b, None, &[]);
    w.claim(&c, None, &[]);
    // raising the limit, then a third farm
    w.fm_update_config(&o, upd_cfg(Some(3), None, None, None), "max_farms=3", &[]);
    w.fm_update_config(&o, upd_cfg(Some(2), None, None, None), "max_farms=2 (decrease refused)", &[]);
    w.fm_update_config(&b, upd_cfg(Some(5), None, None, None), "max_farms=5 by non-owner", &[]);
    w.create_farm(&d, &lp, None, None, reward.clone(), Some("third".into()), &exact);
}

/// C08: every ManagePosition variant from every role at expiry-1 / expiry / expiry+1
fn sc_position_roles_and_boundary(t: &mut Tracer) {
    let mut w = W::new(SysCfg::default(), 2, t, "position_roles_and_boundary");
    let lp = w.lps[0].clone();
    let lp2 = w.lps[1].clone();
    let (o, b, c) = (w.user(0), w.user(1), w.user(2));
    let pmaddr = w.who("pm");
    // creation for somebody else: only the pool manager may
    w.pos_create(&b, Some("forcarol".into()), DAY, Some(c.clone()), &[coin(1000, lp.clone())]);
    w.pos_create(&b, Some("self".into()), DAY, Some(b.clone()), &[coin(1000, lp.clone())]);
    w.pos_create(&b, None, 2 * DAY, None, &[coin(5000, lp.clone())]); // p-1
    w.pos_create(&b, Some("p-2".into()), 2 * DAY, None, &[coin(5000, lp.clone())]); // looks generated: becomes u-p-2
    w.pos_create(&b, None, 2 * DAY, None, &[coin(700, lp2.clone())]); // p-2
    w.pos_create(&b, Some("short".into()), DAY - 1, None, &[coin(1000, lp.clone())]);
    w.pos_create(&b, Some("long".into()), YEAR + 1, None, &[coin(1000, lp.clone())]);
    w.pos_create(&b, Some("notlp".into()), DAY, None, &[coin(1000, "uusdc")]);
    w.pos_create(&b, Some("two".into()), DAY, None, &[coin(1000, lp.clone()), coin(1000, lp2.clone())]);
    w.pos_create(&b, Some("self".into()), DAY, None, &[coin(1, lp.clone())]); // duplicate id
    w.pos_create(&c, Some("carol".into()), 3 * DAY, None, &[coin(9000, lp.clone())]);
    // expand: owner ok, stranger refused, wrong denom refused
    w.pos_expand(&c, "u-self", &[coin(10, lp.clone())]);
    w.pos_expand(&b, "u-self", &[coin(10, lp2.clone())]);
    w.pos_expand(&b, "u-self", &[coin(10, lp.clone())]);
    w.pos_expand(&b, "u-nonexistent", &[coin(10, lp.clone())]);
    // close: only the owner; partial amounts 1, amount-1, amount+1, wrong denom
    w.pos_close(&c, "u-self", None, &[]);
    w.pos_close(&o, "u-self", None, &[]);
    w.pos_close(&b, "u-self", Some(coin(1, lp.clone())), &[]);
    w.pos_close(&b, "u-self", Some(coin(5000, lp.clone())), &[]);
    w.pos_close(&b, "u-self", Some(coin(1008, lp.clone())), &[]); // amount-1 (1010-1-1)
    w.pos_close(&b, "u-self", Some(coin(1, lp2.clone())), &[]);
    w.pos_close(&b, "u-self", None, &[coin(1, "uom")]);
    // the identifier as the user chose it, without the prefix it is stored under, names nothing
    w.pos_close(&b, "self", Some(coin(1, lp.clone())), &[]);
    w.pos_close(&b, "self", None, &[]);
    w.pos_expand(&b, "self", &[coin(10, lp.clone())]);
    w.pos_withdraw(&b, "self", Some(true), &[]);
    w.pos_close(&b, "u-self", None, &[]);
    w.pos_withdraw(&b, "self", None, &[]);
    w.pos_close(&b, "u-self", None, &[]); // already closed
    w.pos_expand(&b, "u-self", &[coin(10, lp.clone())]); // closed: refused
    // withdraw before/at/after the unlock instant, by each role; u-self was closed at `now`, dur = 1 day
    let t_close = w.s.now();
    let expiry = t_close + DAY;
    w.pos_withdraw(&b, "u-self", None, &[]); // far too early
    w.advance(expiry - 1 - w.s.now());
    w.pos_withdraw(&b, "u-self", None, &[]); // expiry-1: refused
    w.pos_withdraw(&c, "u-self", Some(false), &[]);
    w.advance(1);
    w.pos_withdraw(&c, "u-self", None, &[]); // not the owner
    w.pos_withdraw(&pmaddr, "u-self", None, &[]); // pool manager is not a delegate for withdrawals
    w.pos_withdraw(&o, "u-self", Some(true), &[]); // contract owner neither
    w.pos_withdraw(&b, "u-self", None, &[coin(1, "uom")]); // funds attached
    w.pos_withdraw(&b, "u-self", None, &[]); // exactly at expiry: ok
    w.pos_withdraw(&b, "u-self", None, &[]); // gone
    // the partial closes created p-3, p-4 (closed at the same time): withdraw one at expiry+1
    w.advance(1);
    w.pos_withdraw(&b, "p-3", None, &[]);
    w.pos_withdraw(&b, "p-4", Some(true), &[]); // emergency flag on an expired position: no penalty
    // open position cannot be withdrawn normally
    w.pos_withdraw(&b, "p-1", None, &[]);
    w.pos_withdraw(&c, "u-carol", Some(false), &[]);
}

/// the pool manager's address acts for users (the locked-deposit flow seen from the farm manager): positions it creates and
/// tops up belong to the user, weigh for the user and earn for the user
fn sc_pool_manager_on_behalf(t: &mut Tracer) {
    let mut w = W::new(SysCfg::default(), 1, t, "pool_manager_on_behalf");
    let lp = w.lps[0].clone();
    let (o, b, c) = (w.user(0), w.user(1), w.user(2));
    let pmaddr = w.who("pm");
    let f = w.fee_funds(&coin(60_000, "uweth"));
    w.create_farm(&o, &lp, Some(1), Some(13), coin(60_000, "uweth"), Some("f".into()), &f);
    w.bank_send(&b, &pmaddr, coin(10_000, lp.clone()));
    w.pos_create(&pmaddr, Some("forb".into()), DAY, Some(b.clone()), &[coin(1000, lp.clone())]);
    w.pos_create(&c, Some("c".into()), DAY, None, &[coin(1000, lp.clone())]);
    w.advance(DAY);
    w.pos_expand(&pmaddr, "u-forb", &[coin(2000, lp.clone())]);
    w.pos_expand(&c, "u-forb", &[coin(2000, lp.clone())]); // a stranger: refused
    w.advance(DAY);
    w.claim(&b, None, &[]);
    w.claim(&c, None, &[]);
    w.claim(&pmaddr, None, &[]); // the delegate owns nothing
    w.pos_expand(&pmaddr, "u-forb", &[coin(1000, lp.clone())]);
    w.pos_close(&pmaddr, "u-forb", None, &[]); // not a delegate for closing
    w.advance(DAY);
    w.claim(&b, None, &[]);
    w.claim(&c, None, &[]);
    w.pos_close(&b, "u-forb", Some(coin(1500, lp.clone())), &[]);
    w.pos_expand(&pmaddr, "u-forb", &[coin(500, lp.clone())]);
    w.advance(DAY);
    w.claim(&b, None, &[]);
    w.claim(&c, None, &[]);
    w.pos_close(&b, "u-forb", None, &[]);
    w.advance(DAY);
    w.claim(&c, None, &[]);
    w.pos_withdraw(&b, "u-forb", None, &[]);
}

/// C09: emergency withdrawals — open / closed at several elapsed times, owner sets, penalties
fn sc_emergency(t: &mut Tracer, penalty: Decimal, name: &str) {
    let mut w = W::new(SysCfg { penalty, ..Default::default() }, 2, t, name);
    let lp = w.lps[0].clone();
    let lp2 = w.lps[1].clone();
    let (o, b, c, d, e) = (w.user(0), w.user(1), w.user(2), w.user(3), w.user(4));
    // no farm at all on lp2: everything to the fee collector
    w.pos_create(&b, Some("nofarm".into()), 30 * DAY, None, &[coin(10_000, lp2.clone())]);
    w.pos_withdraw(&b, "u-nofarm", Some(true), &[]);
    // farms on lp: one active (owner d), one future (owner e), later one shared owner
    let f = w.fee_funds(&coin(8000, "uweth"));
    w.create_farm(&d, &lp, Some(1), Some(9), coin(8000, "uweth"), Some("act".into()), &f);
    w.create_farm(&e, &lp, Some(6), Some(9), coin(8000, "uweth"), Some("fut".into()), &f);
    for (id, amt, dur) in [("one", 1u128, DAY), ("two", 2, YEAR), ("three", 3, 15778463), ("big", 1_000_000_007, YEAR), ("mid", 54_321, 100 * DAY), ("closed", 77_777, 10 * DAY), ("closed2", 1_000, YEAR)] {
        w.pos_create(&b, Some(id.into()), dur, None, &[coin(amt, lp.clone())]);
    }
    w.pos_create(&c, Some("c1".into()), YEAR, None, &[coin(500_000, lp.clone())]);
    // farm not yet started (epoch 0): no active owners
    w.pos_withdraw(&b, "u-one", Some(true), &[]);
    w.advance(DAY); // epoch 1: "act" active, "fut" not
    w.pos_withdraw(&b, "u-two", Some(true), &[]);
    w.pos_withdraw(&c, "u-three", Some(true), &[]); // not the owner
    w.pos_withdraw(&b, "u-three", Some(true), &[]);
    w.claim(&b, None, &[]); // pending rewards would block the closes
    w.pos_close(&b, "u-closed", None, &[]);
    w.pos_close(&b, "u-closed2", None, &[]);
    w.advance(3 * DAY + 17);
    w.pos_withdraw(&b, "u-closed", Some(true), &[]); // closed, 30% elapsed
    w.advance(2 * DAY); // epoch 6: both farms active, distinct owners
    w.pos_withdraw(&b, "u-big", Some(true), &[]);
    w.claim(&c, None, &[]);
    w.pos_withdraw(&b, "u-closed2", Some(true), &[]);
    // same owner for two farms on lp2
    let f2 = w.fee_funds(&coin(9000, "uusd"));
    w.create_farm(&d, &lp2, None, None, coin(9000, "uusd"), Some("x1".into()), &f2);
    w.create_farm(&d, &lp2, None, None, coin(9000, "uusd"), Some("x2".into()), &f2);
    w.pos_create(&c, Some("c2".into()), 200 * DAY, None, &[coin(999_999, lp2.clone())]);
    w.advance(DAY);
    w.pos_withdraw(&c, "u-c2", Some(true), &[]);
    w.pos_withdraw(&b, "u-mid", Some(true), &[]);
    // closed positions with long locks (multiplier up to 16x, so base x multiplier exceeds the 90% cap) at several
    // stages of unlocking: 10%, 50%, 90%, one second before the end
    for (id, dur) in [("y1", YEAR), ("y2", YEAR), ("y3", YEAR), ("y4", 200 * DAY), ("h1", 15778463)] {
        w.pos_create(&c, Some(id.into()), dur, None, &[coin(1_000_000, lp2.clone())]);
    }
    w.advance(DAY);
    w.claim(&c, None, &[]);
    for id in ["u-y1", "u-y2", "u-y3", "u-y4", "u-h1"] {
        w.pos_close(&c, id, None, &[]);
    }
    w.advance(YEAR / 10);
    w.pos_withdraw(&c, "u-y1", Some(true), &[]);
    w.pos_withdraw(&c, "u-h1", Some(true), &[]);
    w.advance(YEAR / 2 - YEAR / 10);
    w.pos_withdraw(&c, "u-y2", Some(true), &[]);
    w.pos_withdraw(&c, "u-y4", Some(true), &[]);
    w.advance(YEAR / 2 - 2);
    w.pos_withdraw(&c, "u-y3", Some(true), &[]);
    let _ = o;
}

/// C07 twin: the same history with different claim schedules is produced by the random driver with
/// `twin` events; here a compact deterministic version with two LP denoms sharing the cursor.
fn sc_two_lps_shared_cursor(t: &mut Tracer) {
    let mut w = W::new(SysCfg::default(), 2, t, "two_lps_shared_cursor");
    let (lp, lp2) = (w.lps[0].clone(), w.lps[1].clone());
    let (o, b, c) = (w.user(0), w.user(1), w.user(2));
    let f = w.fee_funds(&coin(12_000, "uweth"));
    w.create_farm(&o, &lp, Some(1), Some(13), coin(12_000, "uweth"), Some("a".into()), &f);
    let f2 = w.fee_funds(&coin(7_000, "uusd"));
    w.create_farm(&o, &lp2, Some(3), Some(10), coin(7_000, "uusd"), Some("b".into()), &f2);
    w.pos_create(&b, Some("b1".into()), DAY, None, &[coin(1000, lp.clone())]);
    w.pos_create(&c, Some("c1".into()), 60 * DAY, None, &[coin(3000, lp.clone())]);
    w.advance(DAY);
    w.advance(DAY);
    w.claim(&b, None, &[]);
    w.pos_create(&b, Some("b2".into()), 10 * DAY, None, &[coin(4000, lp2.clone())]);
    w.pos_create(&c, Some("c2".into()), DAY, None, &[coin(4000, lp2.clone())]);
    w.advance(DAY);
    w.advance(DAY);
    w.advance(DAY);
    let cur = w.cur();
    w.claim(&b, Some(cur - 2), &[]);
    w.claim(&b, Some(cur - 2), &[]);
    w.claim(&b, Some(cur - 3), &[]); // before the last claimed epoch: refused
    w.claim(&b, Some(cur + 1), &[]); // future: refused
    w.claim(&b, None, &[]);
    w.claim(&c, None, &[]);
    w.pos_close(&b, "u-b2", None, &[]); // no pending: ok; last position in lp2 -> history wiped, cursor kept
    w.advance(DAY);
    w.pos_close(&c, "u-c2", None, &[]); // pending rewards: refused
    w.claim(&c, None, &[]);
    w.pos_close(&c, "u-c2", None, &[]);
    w.pos_create(&b, Some("b3".into()), DAY, None, &[coin(100, lp2.clone())]); // rejoin lp2
    w.advance(DAY);
    w.advance(DAY);
    w.claim(&b, None, &[]);
    w.claim(&c, None, &[]);
}

/// one user holding several positions whose LP denoms alternate in identifier order (a: lp1, b: lp2, c: lp1, d: lp2)
fn sc_alternating_lp_positions(t: &mut Tracer) {
    let mut w = W::new(SysCfg::default(), 2, t, "alternating_lp_positions");
    let (lp, lp2) = (w.lps[0].clone(), w.lps[1].clone());
    let (o, b, c) = (w.user(0), w.user(1), w.user(2));
    let f = w.fee_funds(&coin(10_000, "uweth"));
    w.create_farm(&o, &lp, Some(1), Some(11), coin(10_000, "uweth"), Some("fa".into()), &f);
    let f2 = w.fee_funds(&coin(20_000, "uusd"));
    w.create_farm(&o, &lp2, Some(1), Some(11), coin(20_000, "uusd"), Some("fb".into()), &f2);
    w.pos_create(&b, Some("a".into()), DAY, None, &[coin(1000, lp.clone())]);
    w.pos_create(&b, Some("b".into()), DAY, None, &[coin(1000, lp2.clone())]);
    w.pos_create(&b, Some("c".into()), DAY, None, &[coin(1000, lp.clone())]);
    w.pos_create(&b, Some("d".into()), 30 * DAY, None, &[coin(500, lp2.clone())]);
    w.pos_create(&c, Some("z".into()), DAY, None, &[coin(2000, lp.clone())]);
    w.pos_create(&c, Some("y".into()), DAY, None, &[coin(2000, lp2.clone())]);
    w.advance(DAY);
    w.advance(DAY);
    w.claim(&b, None, &[]);
    w.advance(DAY);
    w.claim(&b, Some(2), &[]);
    w.claim(&b, None, &[]);
    w.claim(&c, None, &[]);
    w.advance(DAY);
    w.advance(DAY);
    w.claim(&c, None, &[]);
    w.claim(&b, None, &[]);
}

/// the owner narrows the allowed unlocking range after long positions were opened; closing them must remove their weight
fn sc_unlock_range_narrowed(t: &mut Tracer) {
    let mut w = W::new(SysCfg::default(), 1, t, "unlock_range_narrowed");
    let lp = w.lps[0].clone();
    let (o, b, c) = (w.user(0), w.user(1), w.user(2));
    let f = w.fee_funds(&coin(40_000, "uweth"));
    w.create_farm(&o, &lp, Some(1), Some(11), coin(40_000, "uweth"), Some("f".into()), &f);
    w.pos_create(&b, Some("long".into()), YEAR, None, &[coin(1000, lp.clone())]);
    w.pos_create(&b, Some("short".into()), DAY, None, &[coin(1000, lp.clone())]);
    w.pos_create(&c, Some("c".into()), DAY, None, &[coin(1000, lp.clone())]);
    w.advance(DAY);
    let narrow = fm::ExecuteMsg::UpdateConfig { fee_collector_addr: None, epoch_manager_addr: None, pool_manager_addr: None, create_farm_fee: None, max_concurrent_farms: None,
        max_farm_epoch_buffer: None, min_unlocking_duration: None, max_unlocking_duration: Some(30 * DAY), farm_expiration_time: None, emergency_unlock_penalty: None };
    w.fm_update_config(&o, narrow, "max_unlocking_duration=30d", &[]);
    w.pos_create(&c, Some("toolong".into()), YEAR, None, &[coin(10, lp.clone())]); // now out of range
    w.claim(&b, None, &[]);
    w.pos_close(&b, "u-long", Some(coin(400, lp.clone())), &[]);
    w.pos_close(&b, "u-long", None, &[]);
    w.advance(DAY);
    w.claim(&b, None, &[]);
    w.claim(&c, None, &[]);
    w.pos_withdraw(&b, "u-short", Some(true), &[]);
}

/// more than ten farms on one LP token (limit raised to 12), shares that are exact thirds (small and very
/// large emissions), and a farm that is long relative to its budget and gets expanded
fn sc_many_farms_exact_thirds_long_farm(t: &mut Tracer) {
    let mut w = W::new(SysCfg::default(), 2, t, "many_farms_exact_thirds_long_farm");
    let (lp, lp2) = (w.lps[0].clone(), w.lps[1].clone());
    let (o, b, c, d, e) = (w.user(0), w.user(1), w.user(2), w.user(3), w.user(4));
    w.fm_update_config(&o, upd_cfg(Some(12), None, None, None), "max_farms=12", &[]);
    // three equal stakers on lp, 1/3 - 2/3 on lp2 (same lock, so the weights are in the same proportion)
    for (u, id) in [(&b, "b"), (&c, "c"), (&d, "d")] {
        w.pos_create(u, Some(format!("{id}1")), 7 * DAY, None, &[coin(1000, lp.clone())]);
    }
    w.pos_create(&b, Some("b2".into()), DAY, None, &[coin(1000, lp2.clone())]);
    w.pos_create(&c, Some("c2".into()), DAY, None, &[coin(2000, lp2.clone())]);
    // 12 farms on lp: rate 9 (1008 over 112 epochs), a huge one (3e21 per epoch), and ten ordinary ones
    let mut mk = |w: &mut W, who: &Addr, id: &str, lp: &str, start: u64, end: u64, c: Coin| {
        let f = w.fee_funds(&c);
        w.create_farm(who, lp, Some(start), Some(end), c, Some(id.into()), &f)
    };
    // in identifier order m-nine is the twelfth farm; its owner has no other farm
    mk(&mut w, &c, "nine", &lp, 1, 113, coin(1008, "uusd"));
    mk(&mut w, &e, "huge", &lp, 1, 5, coin(12_000_000_000_000_000_000_000, "uweth"));
    for k in 0..10u64 {
        let who = if k % 2 == 0 { e.clone() } else { o.clone() };
        mk(&mut w, &who, &format!("k{k}"), &lp, 1 + k % 3, 6 + k, coin(1000 * (5 + k as u128), "uusdt"));
    }
    mk(&mut w, &e, "thirteenth", &lp, 1, 5, coin(5000, "uusdt")); // over the limit of 12
    mk(&mut w, &e, "huge2", &lp2, 1, 4, coin(9_000_000_000_000_000_000_000, "uweth"));
    // a farm that is long relative to its budget: 1000 over 300 epochs (rate 3, remainder 100)
    mk(&mut w, &e, "long", &lp2, 1, 301, coin(1000, "uusd"));
    w.advance(DAY);
    w.advance(DAY);
    w.claim(&b, None, &[]);
    w.claim(&c, Some(1), &[]);
    w.expand_farm(&e, "m-long", &lp2, coin(6, "uusd"), &[coin(6, "uusd")]);
    // a farm whose last epoch is so far away that nobody can compute when it ends: it is not expired, and a stranger's next
    // creation on the same LP token neither closes nor refunds it
    mk(&mut w, &b, "far", &lp2, 3, 1_000_000_000_000_000, coin(1_000_000_000_000_000_000, "uweth")); // its owner has no other farm
    mk(&mut w, &d, "afterfar", &lp2, 3, 9, coin(6000, "uusdt"));
    // a farm emitting one unit per epoch, expanded by more epochs than a 64-bit counter holds: refused, not truncated
    mk(&mut w, &e, "one", &lp2, 3, 1003, coin(1000, "uusdt"));
    w.expand_farm(&e, "m-one", &lp2, coin(18_446_744_073_709_551_621, "uusdt"), &[coin(18_446_744_073_709_551_621, "uusdt")]);
    w.expand_farm(&e, "m-one", &lp2, coin(18_446_744_073_709_551_616, "uusdt"), &[coin(18_446_744_073_709_551_616, "uusdt")]);
    w.expand_farm(&e, "m-one", &lp2, coin(5, "uusdt"), &[coin(5, "uusdt")]);
    w.expand_farm(&c, "m-nine", &lp, coin(18, "uusd"), &[coin(18, "uusd")]);
    w.advance(DAY);
    w.claim(&c, None, &[]);
    w.claim(&d, None, &[]);
    w.pos_withdraw(&d, "u-d1", Some(true), &[]); // penalty shared among the owners of 12 farms
    // on the other LP token a farm runs whose end nobody can compute: it is a live farm, its owner shares the penalty
    w.pos_create(&c, Some("c3".into()), 30 * DAY, None, &[coin(1_000_000, lp2.clone())]);
    w.pos_withdraw(&c, "u-c3", Some(true), &[]);
    w.advance(DAY);
    w.advance(DAY);
    w.claim(&b, None, &[]);
    w.claim(&c, None, &[]);
    w.close_farm(&o, "m-k0", &[]); // contract owner closes somebody else's farm: refund goes to the farm owner
    w.pages(5);
    w.close_farm(&o, "m-nine", &[]);
    w.claim(&b, None, &[]);
}

/// C07 twin: one fixed history of positions and farms, executed under different claim schedules; the totals each
/// user receives over the whole span must be identical. The history itself contains no step that depends on claims.
fn sc_claim_schedule_twins(rng: &mut StdRng, t: &mut Tracer, nsched: usize) {
    let mut totals: Vec<Value> = vec![];
    let epochs = 9u64;
    for sched in 0..nsched {
        let mut w = W::new(SysCfg::default(), 2, t, &format!("claim_schedule_twin_{sched}"));
        let (lp, lp2) = (w.lps[0].clone(), w.lps[1].clone());
        let (o, b, c, d) = (w.user(0), w.user(1), w.user(2), w.user(3));
        let f = w.fee_funds(&coin(9_009, "uweth"));
        w.create_farm(&o, &lp, Some(1), Some(8), coin(9_009, "uweth"), Some("a".into()), &f);
        let f2 = w.fee_funds(&coin(50_000, "uusd"));
        w.create_farm(&o, &lp2, Some(3), Some(9), coin(50_000, "uusd"), Some("b".into()), &f2);
        w.create_farm(&d, &lp, Some(2), Some(6), coin(7_777, "uusd"), Some("c".into()), &f2.iter().map(|x| if x.denom == "uusd" { coin(7_777, "uusd") } else { x.clone() }).collect::<Vec<_>>());
        let start: Vec<u128> = [&b, &c].iter().flat_map(|u| ["uweth", "uusd"].iter().map(|dn| w.s.bal(u, dn)).collect::<Vec<_>>()).collect();
        for ep in 0..epochs {
            // position changes of the fixed history (top-ups only: they never depend on pending rewards)
            match ep {
                0 => { w.pos_create(&b, Some("b1".into()), DAY, None, &[coin(1000, lp.clone())]); w.pos_create(&c, Some("c1".into()), 100 * DAY, None, &[coin(777, lp.clone())]); }
                2 => { w.pos_create(&b, Some("b2".into()), 30 * DAY, None, &[coin(5000, lp2.clone())]); w.pos_expand(&c, "u-c1", &[coin(223, lp.clone())]); }
                3 => { w.pos_create(&c, Some("c2".into()), DAY, None, &[coin(2500, lp2.clone())]); }
                5 => { w.pos_expand(&b, "u-b1", &[coin(1, lp.clone())]); w.pos_expand(&b, "u-b2", &[coin(3333, lp2.clone())]); }
                6 => { w.expand_farm(&o, "m-a", &lp, coin(2574, "uweth"), &[coin(2574, "uweth")]); }
                _ => {}
            }
            // the schedule: 0 = every epoch, 1 = never before the end, 2.. = random subsets with random until
            let cur = w.cur();
            for u in [&b, &c] {
                let do_claim = match sched { 0 => true, 1 => false, _ => rng.gen_bool(0.45) };
                if do_claim && cur > 0 {
                    let until = if sched >= 2 && rng.gen_bool(0.5) { Some(rng.gen_range(0..=cur)) } else { None };
                    w.claim(u, until, &[]);
                }
            }
            w.advance(DAY);
        }
        w.claim(&b, None, &[]);
        w.claim(&c, None, &[]);
        let end: Vec<u128> = [&b, &c].iter().flat_map(|u| ["uweth", "uusd"].iter().map(|dn| w.s.bal(u, dn)).collect::<Vec<_>>()).collect();
        let tot: Vec<Value> = end.iter().zip(start.iter()).map(|(e, s0)| limbs(e - s0)).collect();
        totals.push(json!(tot));
        w.t.emit("twin", json!({"kind": "claim_schedule", "schedule": sched, "totals": totals.clone()}));
    }
}

/// the limit of ten open and ten closed positions per user
/// every validated field of UpdateConfig at its boundary, by the owner; a farm and a position exist meanwhile (S_ guards)
fn sc_config_update_shapes(t: &mut Tracer) {
    let mut w = W::new(SysCfg::default(), 1, t, "config_update_shapes");
    const MONTH: u64 = 2_629_746;
    let lp = w.lps[0].clone();
    let (o, b) = (w.user(0), w.user(1));
    let f = w.fee_funds(&coin(8000, "uweth"));
    w.create_farm(&o, &lp, Some(1), Some(9), coin(8000, "uweth"), Some("f".into()), &f);
    w.pos_create(&b, Some("p".into()), 10 * DAY, None, &[coin(1000, lp.clone())]);
    let upd = |min: Option<u64>, max: Option<u64>, exp: Option<u64>, pen: Option<Decimal>, buf: Option<u32>| fm::ExecuteMsg::UpdateConfig {
        fee_collector_addr: None, epoch_manager_addr: None, pool_manager_addr: None, create_farm_fee: None, max_concurrent_farms: None,
        max_farm_epoch_buffer: buf, min_unlocking_duration: min, max_unlocking_duration: max, farm_expiration_time: exp, emergency_unlock_penalty: pen };
    w.fm_update_config(&o, upd(Some(YEAR + 1), None, None, None, None), "min above max", &[]);
    w.fm_update_config(&o, upd(None, Some(DAY - 1), None, None, None), "max below min", &[]);
    w.fm_update_config(&o, upd(Some(20 * DAY), Some(10 * DAY), None, None, None), "both, crossed", &[]);
    w.fm_update_config(&o, upd(Some(40 * DAY), Some(40 * DAY), None, None, None), "both, equal, above the old max? no: within", &[]);
    w.fm_update_config(&o, upd(Some(2 * YEAR), Some(3 * YEAR), None, None, None), "both raised above the old max", &[]);
    w.fm_update_config(&o, upd(None, None, Some(MONTH - 1), None, None), "expiry below a month", &[]);
    w.fm_update_config(&o, upd(None, None, Some(MONTH), None, None), "expiry a month", &[]);
    w.fm_update_config(&o, upd(None, None, None, Some(Decimal::percent(100)), None), "penalty 100%", &[]);
    w.fm_update_config(&o, upd(None, None, None, Some(Decimal::from_atomics(1_000_000_000_000_000_001u128, 18).unwrap()), None), "penalty above 100%", &[]);
    w.fm_update_config(&o, upd(None, None, None, None, Some(0)), "buffer 0", &[]);
    w.fm_update_config(&o, upd(None, None, None, Some(Decimal::percent(10)), Some(14)), "back to normal", &[coin(1, "uom")]);
    w.fm_update_config(&b, upd(None, None, Some(2 * MONTH), None, None), "expiry by a stranger", &[]);
    // the position opened under the old range still closes and pays out
    w.advance(DAY);
    w.claim(&b, None, &[]);
    w.pos_close(&b, "u-p", None, &[]);
    w.pos_withdraw(&b, "u-p", Some(true), &[]);
}

/// a farm past its last epoch that has not expired yet (unclaimed rewards, expiry a month away) is still a live farm: its owner
/// shares the penalty - alone, and next to the owner of a running farm
fn sc_emergency_with_ended_farm(t: &mut Tracer) {
    let mut w = W::new(SysCfg::default(), 1, t, "emergency_with_ended_farm");
    let lp = w.lps[0].clone();
    let (o, b, c, d) = (w.user(0), w.user(1), w.user(2), w.user(3));
    let f = w.fee_funds(&coin(8_000, "uweth"));
    w.create_farm(&c, &lp, Some(1), Some(3), coin(8_000, "uweth"), Some("short".into()), &f);
    for id in ["x", "y", "z"] {
        w.pos_create(&b, Some(id.into()), 30 * DAY, None, &[coin(1_000_000, lp.clone())]);
    }
    w.pos_create(&d, Some("d".into()), 30 * DAY, None, &[coin(1_000_000, lp.clone())]);
    w.advance(2 * DAY);
    w.pos_withdraw(&b, "u-x", Some(true), &[]); // the farm is running
    w.advance(3 * DAY);
    w.pos_withdraw(&b, "u-y", Some(true), &[]); // ended two epochs ago, nothing claimed: live
    let f2 = w.fee_funds(&coin(8_000, "uusdt"));
    w.create_farm(&o, &lp, None, None, coin(8_000, "uusdt"), Some("second".into()), &f2);
    w.advance(2 * DAY);
    w.pos_withdraw(&b, "u-z", Some(true), &[]); // one running farm and one ended farm, two owners
    w.claim(&d, None, &[]);
}

/// two expired farms of one owner that pay different tokens, closed by a stranger's creation, while a live farm elsewhere holds
/// more of the first token: each remainder goes back in its own token
fn sc_autoclose_one_owner_two_tokens(t: &mut Tracer) {
    let mut w = W::new(SysCfg::default(), 2, t, "autoclose_one_owner_two_tokens");
    let (lp, lp2) = (w.lps[0].clone(), w.lps[1].clone());
    let (b, c, d, e) = (w.user(1), w.user(2), w.user(3), w.user(4));
    let fa = w.fee_funds(&coin(8_000, "uweth"));
    w.create_farm(&e, &lp, Some(1), Some(3), coin(8_000, "uweth"), Some("a".into()), &fa);
    let fb = w.fee_funds(&coin(6_000, "uusdt"));
    w.create_farm(&e, &lp, Some(1), Some(3), coin(6_000, "uusdt"), Some("b".into()), &fb);
    let fl = w.fee_funds(&coin(40_000, "uweth"));
    w.create_farm(&c, &lp2, Some(1), Some(41), coin(40_000, "uweth"), Some("live".into()), &fl);
    w.pos_create(&b, Some("p".into()), DAY, None, &[coin(1000, lp.clone())]);
    w.pos_create(&b, Some("q".into()), DAY, None, &[coin(1000, lp2.clone())]);
    w.advance(2 * DAY);
    w.claim(&b, Some(1), &[]); // one of the two epochs of a and b: half of each budget stays unclaimed
    w.pos_close(&b, "u-p", None, &[]);
    w.advance(33 * DAY);
    let fn_ = w.fee_funds(&coin(5_000, "uusd"));
    w.create_farm(&d, &lp, None, None, coin(5_000, "uusd"), Some("next".into()), &fn_);
    w.claim(&b, None, &[]);
    w.close_farm(&c, "m-live", &[]);
}

/// an emergency exit on an LP token nobody farms yet, by a user who keeps another position there; the farm comes later
fn sc_emergency_without_any_farm(t: &mut Tracer) {
    let mut w = W::new(SysCfg::default(), 1, t, "emergency_without_any_farm");
    let lp = w.lps[0].clone();
    let (o, b, c) = (w.user(0), w.user(1), w.user(2));
    w.pos_create(&b, Some("keep".into()), DAY, None, &[coin(1_000, lp.clone())]);
    w.pos_create(&b, Some("leave".into()), 30 * DAY, None, &[coin(5_000, lp.clone())]);
    w.pos_create(&c, Some("c".into()), DAY, None, &[coin(1_000, lp.clone())]);
    w.advance(DAY);
    w.pos_withdraw(&b, "u-leave", Some(true), &[]);
    let f = w.fee_funds(&coin(12_000, "uweth"));
    w.create_farm(&o, &lp, None, None, coin(12_000, "uweth"), Some("late".into()), &f);
    w.advance(3 * DAY);
    w.claim(&b, None, &[]);
    w.claim(&c, None, &[]);
}

/// two LP tokens whose denoms differ only by letter case: closing part of a position names its own token, nothing that looks like it
fn sc_lookalike_lp_denoms(t: &mut Tracer) {
    let mut w = W::new_ids(SysCfg::default(), &["abc", "ABC"], t, "lookalike_lp_denoms");
    let (lp, lp2) = (w.lps[0].clone(), w.lps[1].clone());
    let (b, c) = (w.user(1), w.user(2));
    w.pos_create(&b, Some("mine".into()), DAY, None, &[coin(10_000, lp.clone())]);
    w.pos_create(&c, Some("other".into()), DAY, None, &[coin(10_000, lp2.clone())]);
    w.pos_close(&b, "u-mine", Some(coin(4_000, lp2.clone())), &[]); // the look-alike: refused
    w.pos_expand(&b, "u-mine", &[coin(1_000, lp2.clone())]); // refused
    w.pos_close(&b, "u-mine", Some(coin(4_000, lp.clone())), &[]);
    w.pos_close(&b, "u-mine", None, &[]);
    w.advance(DAY);
    w.pos_withdraw(&b, "u-mine", None, &[]);
    w.pos_withdraw(&b, "p-1", None, &[]);
}

/// the emergency flag on positions that are already unlocked: at the expiry second, 12 hours and 11 days later - no penalty
fn sc_emergency_flag_after_unlock(t: &mut Tracer) {
    let mut w = W::new(SysCfg::default(), 1, t, "emergency_flag_after_unlock");
    let lp = w.lps[0].clone();
    let (o, b, c) = (w.user(0), w.user(1), w.user(2));
    let f = w.fee_funds(&coin(40_000, "uweth"));
    w.create_farm(&o, &lp, Some(1), Some(21), coin(40_000, "uweth"), Some("f".into()), &f);
    for id in ["x", "y", "z"] {
        w.pos_create(&b, Some(id.into()), DAY, None, &[coin(1_000_000_000, lp.clone())]);
    }
    w.pos_create(&c, Some("other".into()), DAY, None, &[coin(1_000_000_000, lp.clone())]);
    w.advance(DAY);
    w.claim(&b, None, &[]);
    for id in ["u-x", "u-y", "u-z"] {
        w.pos_close(&b, id, None, &[]);
    }
    w.advance(DAY - 1);
    w.pos_withdraw(&b, "u-x", Some(true), &[]); // one second early: still a penalty
    w.pos_create(&b, Some("x".into()), DAY, None, &[coin(1_000_000_000, lp.clone())]);
    w.advance(1);
    w.pos_withdraw(&b, "u-y", Some(true), &[]); // the expiry second
    w.advance(DAY / 2);
    w.pos_withdraw(&b, "u-z", Some(true), &[]);
    w.claim(&b, None, &[]);
    w.pos_close(&b, "u-x", None, &[]);
    w.advance(11 * DAY);
    w.pos_withdraw(&b, "u-x", Some(true), &[]);
    w.claim(&c, None, &[]);
}

/// instantiate validation of the farm manager: every class of the four validated fields (S_ guards)
fn sc_instantiate_shapes(t: &mut Tracer) {
    let mut w = W::new(SysCfg::default(), 1, t, "instantiate_shapes");
    const MONTH: u64 = 2_629_746;
    let hundred = Decimal::percent(100);
    let over = Decimal::from_atomics(1_000_000_000_000_000_001u128, 18).unwrap();
    let shapes: Vec<(u32, u64, u64, u64, Decimal)> = vec![
        (1, DAY, YEAR, MONTH, Decimal::percent(10)),
        (0, DAY, YEAR, MONTH, Decimal::percent(10)),
        (2, DAY, DAY, MONTH, Decimal::percent(10)),
        (2, DAY + 1, DAY, MONTH, Decimal::percent(10)),
        (2, 0, 0, MONTH, Decimal::zero()),
        (2, DAY, YEAR, MONTH - 1, Decimal::percent(10)),
        (2, DAY, YEAR, MONTH + 1, Decimal::percent(10)),
        (2, DAY, YEAR, 0, Decimal::percent(10)),
        (2, DAY, YEAR, MONTH, hundred),
        (2, DAY, YEAR, MONTH, over),
        (2, DAY, YEAR, MONTH, Decimal::percent(250)),
        (2_000_000_000, 1, u64::MAX, u64::MAX, hundred),
    ];
    for (mf, lo, hi, exp, pen) in shapes {
        let r = w.s.try_instantiate_farm(mf, lo, hi, exp, pen);
        let body = json!({"ok": r.is_ok(), "errtext": r.as_ref().err().cloned().unwrap_or_default(),
            "cfg": {"maxFarms": mf, "minDur": limbs64(lo), "maxDur": limbs64(hi), "expiry": limbs64(exp), "penalty": dec(pen)}});
        w.t.emit("fm_instantiate", body);
    }
}

fn sc_position_limits(t: &mut Tracer) {
    let mut w = W::new(SysCfg::default(), 1, t, "position_limits");
    let lp = w.lps[0].clone();
    let (b, c) = (w.user(1), w.user(2));
    for k in 0..11 {
        w.pos_create(&b, Some(format!("o{k}")), DAY, None, &[coin(100 + k, lp.clone())]); // the 11th open position is refused
    }
    w.pos_create(&c, Some("other".into()), DAY, None, &[coin(100, lp.clone())]); // limits are per user
    for k in 0..10 {
        w.pos_close(&b, &format!("u-o{k}"), None, &[]);
    }
    for k in 0..3 {
        w.pos_create(&b, Some(format!("p{k}")), DAY, None, &[coin(50, lp.clone())]); // open slots are free again
    }
    w.pos_close(&b, "u-p0", None, &[]); // an 11th closed position is refused
    w.pos_close(&b, "u-p1", Some(coin(1, lp.clone())), &[]); // also through a partial close
    w.advance(DAY);
    w.pos_withdraw(&b, "u-o0", None, &[]);
    w.pos_close(&b, "u-p0", None, &[]); // room again
    w.pages(3);
    w.pages(4);
    w.pages(30);
}

// ------------------------------------------------------------------------------------ random histories
struct Known {
    pids: Vec<String>,
    fids: Vec<String>,
}

pub fn random_history(rng: &mut StdRng, t: &mut Tracer, steps: usize, idx: usize) {
    let fee = match idx % 3 {
        0 => coin(1000, "uom"),
        1 => coin(0, "uom"),
        _ => coin(500, "uweth"),
    };
    let penalty = *[Decimal::percent(10), Decimal::percent(0), Decimal::percent(100), Decimal::percent(37)].choose(rng).unwrap();
    let mut w = W::new(SysCfg { farm_fee: fee, penalty, ..Default::default() }, 2, t, &format!("random_{idx}"));
    let mut k = Known { pids: vec![], fids: vec![] };
    let rewards = ["uweth", "uusd", "uom"];
    let durs = [DAY, DAY + 1, 7 * DAY, 15778463, 200 * DAY, YEAR - 1, YEAR];
    let mut nexplicit = 0;
    for _ in 0..steps {
        let ui = rng.gen_range(0..NUSERS);
        let who = w.user(ui);
        let lpi = rng.gen_range(0..w.lps.len());
        let lp = w.lps[lpi].clone();
        let cur = w.cur();
        match rng.gen_range(0..100) {
            0..=17 => {
                // advance: mostly a day, sometimes seconds or several days
                let secs = match rng.gen_range(0..6) {
                    0 => rng.gen_range(1..DAY),
                    1 => rng.gen_range(DAY..3 * DAY),
                    _ => DAY,
                };
                w.advance(secs);
            }
            18..=29 => {
                let amt: u128 = match rng.gen_range(0..5) {
                    0 => rng.gen_range(1..10),
                    1 => rng.gen_range(10..1000),
                    2 => rng.gen_range(1000..1_000_000),
                    3 => rng.gen_range(1_000_000..1_000_000_000),
                    _ => 1000,
                };
                let dur = *durs.choose(rng).unwrap();
                let pid = if rng.gen_bool(0.6) {
                    nexplicit += 1;
                    Some(format!("x{nexplicit}"))
                } else {
                    None
                };
                let recv = if rng.gen_bool(0.1) { Some(w.user(rng.gen_range(0..NUSERS))) } else { None };
                let before: Vec<String> = w.s.q_positions().iter().map(|p| p.identifier.clone()).collect();
                if w.pos_create(&who, pid, dur, recv, &[coin(amt, lp.clone())]) {
                    for p in w.s.q_positions() {
                        if !before.contains(&p.identifier) {
                            k.pids.push(p.identifier.clone());
                        }
                    }
                }
            }
            30..=37 => {
                if let Some(pid) = k.pids.choose(rng).cloned() {
                    let amt: u128 = if rng.gen_bool(0.5) { rng.gen_range(1..20) } else { rng.gen_range(1..100_000) };
                    // usually the owner with the right denom
                    let owner = w.s.q_positions().iter().find(|p| p.identifier == pid).map(|p| (p.receiver.clone(), p.lp_asset.denom.clone()));
                    let (snd, d) = match owner {
                        Some((o, d)) if rng.gen_bool(0.85) => (o, d),
                        _ => (who.clone(), lp.clone()),
                    };
                    w.pos_expand(&snd, &pid, &[coin(amt, d)]);
                }
            }
            38..=49 => {
                if let Some(pid) = k.pids.choose(rng).cloned() {
                    let p = w.s.q_positions().into_iter().find(|p| p.identifier == pid);
                    let (snd, partial) = match p {
                        Some(p) => {
                            let snd = if rng.gen_bool(0.9) { p.receiver.clone() } else { who.clone() };
                            let partial = match rng.gen_range(0..4) {
                                0 => Some(coin(1, p.lp_asset.denom.clone())),
                                1 if p.lp_asset.amount.u128() > 1 => Some(coin(rng.gen_range(1..p.lp_asset.amount.u128()), p.lp_asset.denom.clone())),
                                2 => Some(p.lp_asset.clone()),
                                _ => None,
                            };
                            (snd, partial)
                        }
                        None => (who.clone(), None),
                    };
                    // claim first most of the time, otherwise pending rewards block the close
                    if rng.gen_bool(0.8) {
                        w.claim(&snd, None, &[]);
                    }
                    let before: Vec<String> = w.s.q_positions().iter().map(|p| p.identifier.clone()).collect();
                    if w.pos_close(&snd, &pid, partial, &[]) {
                        for p in w.s.q_positions() {
                            if !before.contains(&p.identifier) {
                                k.pids.push(p.identifier.clone());
                            }
                        }
                    }
                }
            }
            50..=59 => {
                if let Some(pid) = k.pids.choose(rng).cloned() {
                    let p = w.s.q_positions().into_iter().find(|p| p.identifier == pid);
                    let snd = match &p {
                        Some(p) if rng.gen_bool(0.9) => p.receiver.clone(),
                        _ => who.clone(),
                    };
                    let emergency = match rng.gen_range(0..3) {
                        0 => Some(true),
                        1 => Some(false),
                        _ => None,
                    };
                    // sometimes move the clock exactly onto the unlock instant (or one second before)
                    if let Some(p) = &p {
                        if let Some(exp) = p.expiring_at {
                            let now = w.s.now();
                            if exp > now && rng.gen_bool(0.5) {
                                let target = if rng.gen_bool(0.5) { exp } else { exp - 1 };
                                if target > now {
                                    w.advance(target - now);
                                }
                            }
                        }
                    }
                    w.pos_withdraw(&snd, &pid, emergency, &[]);
                }
            }
            60..=79 => {
                // claim, with all kinds of until_epoch
                let until = match rng.gen_range(0..6) {
                    0 | 1 => None,
                    2 => Some(cur),
                    3 if cur > 0 => Some(rng.gen_range(0..=cur)),
                    4 if cur > 0 => Some(cur - 1),
                    _ => Some(cur + rng.gen_range(0..2)),
                };
                w.claim(&who, until, &[]);
            }
            80..=89 => {
                let rd = *rewards.choose(rng).unwrap();
                let len = if rng.gen_bool(0.15) { rng.gen_range(40..400u64) } else { rng.gen_range(1..8u64) };
                let start = if rng.gen_bool(0.3) { None } else { Some(cur + rng.gen_range(1..4)) };
                let st = start.unwrap_or(cur + 1);
                let end = if rng.gen_bool(0.1) { None } else { Some(st + len) };
                let amt: u128 = match rng.gen_range(0..3) {
                    0 => 1000 * len as u128,
                    1 => rng.gen_range(1000..50_000),
                    _ => rng.gen_range(1000..10_000_000_000),
                };
                let reward = coin(amt, rd);
                let mut funds = w.fee_funds(&reward);
                if rng.gen_bool(0.1) {
                    funds[0].amount += Uint128::new(rng.gen_range(1..100));
                }
                let fid = if rng.gen_bool(0.5) {
                    nexplicit += 1;
                    Some(format!("f{nexplicit}"))
                } else {
                    None
                };
                let before: Vec<String> = w.s.q_farms().iter().map(|f| f.identifier.clone()).collect();
                if w.create_farm(&who, &lp, start, end, reward, fid, &funds) {
                    for f in w.s.q_farms() {
                        if !before.contains(&f.identifier) {
                            k.fids.push(f.identifier.clone());
                        }
                    }
                }
            }
            90..=93 => {
                if let Some(fid) = k.fids.choose(rng).cloned() {
                    if let Some(f) = w.s.q_farms().into_iter().find(|f| f.identifier == fid) {
                        let snd = if rng.gen_bool(0.85) { f.owner.clone() } else { who.clone() };
                        let mult = rng.gen_range(1..4u128);
                        let amt = if rng.gen_bool(0.85) { f.emission_rate.u128() * mult } else { f.emission_rate.u128() * mult + 1 };
                        let c = coin(amt.max(1), f.farm_asset.denom.clone());
                        w.expand_farm(&snd, &fid, &f.lp_denom, c.clone(), &[c]);
                    }
                }
            }
            94..=96 => {
                if let Some(fid) = k.fids.choose(rng).cloned() {
                    let f = w.s.q_farms().into_iter().find(|f| f.identifier == fid);
                    let snd = match &f {
                        Some(f) if rng.gen_bool(0.6) => f.owner.clone(),
                        _ if rng.gen_bool(0.5) => w.user(0),
                        _ => who.clone(),
                    };
                    w.close_farm(&snd, &fid, &[]);
                }
            }
            _ => {
                // long jump: lets farms expire
                if rng.gen_bool(0.3) {
                    w.advance(rng.gen_range(20..50) * DAY);
                } else {
                    let o = w.user(0);
                    let pen = *[Decimal::percent(10), Decimal::percent(0), Decimal::percent(100), Decimal::permille(5)].choose(rng).unwrap();
                    w.fm_update_config(&o, upd_cfg(None, Some(pen), None, None), "penalty", &[]);
                }
            }
        }
    }
}

pub fn run(rng: &mut StdRng, thorough: bool, t: &mut Tracer) {
    // seed-independent core
    sc_claim_until_before_join(t);
    sc_piecewise_topup_then_close(t);
    sc_zero_fee(t);
    sc_farm_lifecycle(t, coin(1000, "uom"), "uweth", "farm_lifecycle_fee_other_denom");
    sc_farm_lifecycle(t, coin(1000, "uweth"), "uweth", "farm_lifecycle_fee_same_denom");
    sc_farm_lifecycle(t, coin(0, "uom"), "uweth", "farm_lifecycle_zero_fee");
    sc_position_roles_and_boundary(t);
    sc_emergency(t, Decimal::percent(10), "emergency_10pct");
    sc_emergency(t, Decimal::percent(100), "emergency_100pct");
    sc_emergency(t, Decimal::zero(), "emergency_0pct");
    sc_two_lps_shared_cursor(t);
    sc_many_farms_exact_thirds_long_farm(t);
    sc_alternating_lp_positions(t);
    sc_unlock_range_narrowed(t);
    sc_emergency_flag_after_unlock(t);
    sc_lookalike_lp_denoms(t);
    sc_emergency_without_any_farm(t);
    sc_autoclose_one_owner_two_tokens(t);
    sc_emergency_with_ended_farm(t);
    sc_pool_manager_on_behalf(t);
    sc_instantiate_shapes(t);
    sc_config_update_shapes(t);
    sc_position_limits(t);
    sc_claim_schedule_twins(rng, t, if thorough { 8 } else { 4 });
    // seeded random histories
    let (n, steps) = if thorough { (40, 120) } else { (6, 70) };
    for i in 0..n {
        random_history(rng, t, steps, i);
    }
}
