//! C18 driver: epoch manager queries at boundary seconds, large times, overflowing ids; config
//! validation at instantiate and update.
use crate::project::*;
use crate::sys::*;
use crate::trace::*;
use cosmwasm_std::Uint64;
use cw_multi_test::Executor;
use mantra_dex_std::epoch_manager as em;
use rand::rngs::StdRng;
use rand::Rng;
use serde_json::json;

fn q_cur(s: &Sys, t: &mut Tracer) {
    let c = s.q_em_config();
    let r: Result<em::EpochResponse, String> = s.query(&s.epoch, &em::QueryMsg::CurrentEpoch {});
    let body = match &r {
        Ok(r) => json!({"ok": true, "id": limbs64(r.epoch.id), "start": limbs64(r.epoch.start_time.seconds()), "sub": r.epoch.start_time.subsec_nanos(), "panic": false}),
        Err(e) => json!({"ok": false, "id": "none", "start": "none", "sub": 0, "panic": e.starts_with("panic")}),
    };
    let mut b = body;
    let o = b.as_object_mut().unwrap();
    o.insert("now".into(), limbs64(s.now()));
    o.insert("genesis".into(), limbs64(c.epoch_config.genesis_epoch.u64()));
    o.insert("duration".into(), limbs64(c.epoch_config.duration.u64()));
    t.emit("q_epoch", b);
}
fn q_id(s: &Sys, t: &mut Tracer, id: u64) {
    let c = s.q_em_config();
    let r: Result<em::EpochResponse, String> = s.query(&s.epoch, &em::QueryMsg::Epoch { id });
    let mut b = match &r {
        Ok(r) => json!({"ok": true, "rid": limbs64(r.epoch.id), "start": limbs64(r.epoch.start_time.seconds()), "sub": r.epoch.start_time.subsec_nanos(), "panic": false}),
        Err(e) => json!({"ok": false, "rid": "none", "start": "none", "sub": 0, "panic": e.starts_with("panic")}),
    };
    let o = b.as_object_mut().unwrap();
    o.insert("id".into(), limbs64(id));
    o.insert("genesis".into(), limbs64(c.epoch_config.genesis_epoch.u64()));
    o.insert("duration".into(), limbs64(c.epoch_config.duration.u64()));
    t.emit("q_epoch_id", b);
}
fn upd(s: &mut Sys, t: &mut Tracer, sender: usize, duration: u64, genesis: u64) {
    let pre = s.q_em_config();
    let who = if sender < s.users.len() { s.users[sender].clone() } else { s.stranger.clone() };
    let ea = s.epoch.clone();
    let r = s.exec(
        &who,
        &ea,
        &em::ExecuteMsg::UpdateConfig {
            epoch_config: Some(em::EpochConfig { duration: Uint64::new(duration), genesis_epoch: Uint64::new(genesis) }),
        },
        &[],
    );
    let post = s.q_em_config();
    t.emit(
        "em_update_config",
        json!({"sender": s.sym_of(who.as_str()), "owner": "u1", "now": limbs64(s.now()), "ok": r.is_ok(),
               "err": r.as_ref().err().map(err_class).unwrap_or("none".into()),
               "duration": limbs64(duration), "genesis": limbs64(genesis),
               "pre": {"genesis": limbs64(pre.epoch_config.genesis_epoch.u64()), "duration": limbs64(pre.epoch_config.duration.u64())},
               "post": {"genesis": limbs64(post.epoch_config.genesis_epoch.u64()), "duration": limbs64(post.epoch_config.duration.u64())}}),
    );
}
/// a fresh deployment attempt of the epoch manager only, with arbitrary parameters
fn try_instantiate(t: &mut Tracer, now_off: i64, duration: u64) {
    // Sys::new instantiates with genesis = now + offset; negative offsets must be refused. We
    // instantiate a second epoch manager inside a default world.
    let mut s = Sys::new(SysCfg::default());
    let code = s.app.store_code(Box::new(cw_multi_test::ContractWrapper::new(
        epoch_manager::contract::execute,
        epoch_manager::contract::instantiate,
        epoch_manager::contract::query,
    )));
    let now = s.now();
    let genesis = (now as i64 + now_off) as u64;
    let r = s.app.instantiate_contract(
        code,
        s.users[0].clone(),
        &em::InstantiateMsg {
            owner: s.users[0].to_string(),
            epoch_config: em::EpochConfig { duration: Uint64::new(duration), genesis_epoch: Uint64::new(genesis) },
        },
        &[],
        "epoch2",
        None,
    );
    t.emit(
        "em_instantiate",
        json!({"now": limbs64(now), "genesis": limbs64(genesis), "duration": limbs64(duration), "ok": r.is_ok()}),
    );
}

pub fn run(rng: &mut StdRng, thorough: bool, t: &mut Tracer) {
    // seed-independent core: (genesis offset, duration) pairs incl. the minimum duration
    let mut cfgs: Vec<(u64, u64)> = vec![(0, DAY), (1, DAY), (3600, DAY + 1), (DAY, 7 * DAY), (12345, 100_000), (0, 1u64 << 33)];
    let extra = if thorough { 40 } else { 6 };
    for _ in 0..extra {
        let d = match rng.gen_range(0..4) {
            0 => DAY,
            1 => rng.gen_range(DAY..2 * DAY),
            2 => rng.gen_range(DAY..400 * DAY),
            _ => rng.gen_range(DAY..(1u64 << 40)),
        };
        cfgs.push((rng.gen_range(0..3 * d), d));
    }
    for (off, dur) in cfgs {
        let mut s = Sys::new(SysCfg { epoch_duration: dur, genesis_offset: off, ..Default::default() });
        let c = s.q_em_config();
        let g = c.epoch_config.genesis_epoch.u64();
        t.reset("epoch", json!({"genesis": limbs64(g), "duration": limbs64(dur), "now": limbs64(s.now())}));
        // before genesis (when offset > 0), at genesis-1, genesis, boundaries +-1
        q_cur(&s, t);
        let mut times: Vec<u64> = vec![];
        if g > 0 { times.push(g - 1); }
        times.push(g);
        times.push(g + 1);
        let nb = if thorough { 12 } else { 4 };
        for k in 1..=nb {
            let b = g.saturating_add(k * dur);
            if b >= 18_000_000_000 { break; }
            times.extend([b - 1, b, b + 1]);
        }
        for _ in 0..(if thorough { 30 } else { 6 }) {
            times.push(rng.gen_range(g..g.saturating_add(1000 * dur).min(18_000_000_000).max(g + 1)));
        }
        // near the largest representable block time (Timestamp is u64 nanoseconds)
        times.sort();
        times.dedup();
        for tm in times {
            if tm < s.now() || tm > 18_446_744_073 { continue; }
            s.set_time(tm);
            q_cur(&s, t);
        }
        // block times with a sub-second part, in the last and the first second of an epoch
        for k in 1..=2u64 {
            let b = g.saturating_add(k * dur).saturating_add((s.now().saturating_sub(g) / dur) * dur);
            if b >= 18_000_000_000 || b < s.now() + 2 { continue; }
            for (secs, nanos) in [(b - 1, 1u64), (b - 1, 500_000_000), (b - 1, 999_999_999), (b, 1), (b, 999_999_999)] {
                if secs < s.now() { continue; }
                let mut blk = s.app.block_info();
                blk.time = cosmwasm_std::Timestamp::from_nanos(secs * 1_000_000_000 + nanos);
                blk.height += 1;
                s.app.set_block(blk);
                q_cur(&s, t);
            }
        }
        // pairs of queries exactly one duration apart (ids must differ by exactly one)
        let mut tt = s.now();
        for _ in 0..(if thorough { 10 } else { 3 }) {
            tt = tt.saturating_add(rng.gen_range(0..3 * dur));
            if tt.saturating_add(dur) > 18_000_000_000 { break; }
            s.set_time(tt);
            q_cur(&s, t);
            tt += dur;
            s.set_time(tt);
            q_cur(&s, t);
        }
        // epoch ids: small, random, and overflowing
        let mut ids: Vec<u64> = vec![0, 1, 2, 1000, u64::MAX, u64::MAX / dur, u64::MAX / dur + 1, (u64::MAX - g) / dur, (u64::MAX - g) / dur + 1];
        for _ in 0..(if thorough { 30 } else { 6 }) {
            ids.push(rng.gen_range(0..u64::MAX / dur));
            ids.push(rng.gen());
        }
        for id in ids { q_id(&s, t, id); }
        // config updates: the clock is now far in the future; genesis in the past must be refused
        let now = s.now();
        upd(&mut s, t, 0, DAY - 1, now + 10);         // too short
        upd(&mut s, t, 0, DAY, now - 1);              // genesis in the past
        upd(&mut s, t, 0, dur + 7, g);                // the stored genesis (now in the past) with another duration
        upd(&mut s, t, 1, DAY, now + 10);             // not the owner
        upd(&mut s, t, 9, 2 * DAY, now + 10);         // stranger
        upd(&mut s, t, 0, 86399, now);                // too short at boundary
        upd(&mut s, t, 0, 0, now + 10);               // no duration at all
        upd(&mut s, t, 0, 1, now + 10);
        upd(&mut s, t, 0, DAY, now);                  // ok: exactly now, exactly one day
        q_cur(&s, t);
        upd(&mut s, t, 0, rng.gen_range(DAY..10 * DAY), now + rng.gen_range(0..5 * DAY)); // ok
        q_cur(&s, t);
        s.advance(rng.gen_range(1..20 * DAY));
        q_cur(&s, t);
        for id in [0u64, 1, 7] { q_id(&s, t, id); }
        // near the largest representable block time (Timestamp is u64 nanoseconds)
        for tm in [18_446_744_072u64, 18_446_744_073u64] {
            if tm >= s.now() { s.set_time(tm); q_cur(&s, t); }
        }
    }
    t.reset("epoch_instantiate", json!({"genesis": limbs64(0), "duration": limbs64(0), "now": limbs64(0)}));
    for (off, dur) in [(-1i64, DAY), (0, DAY), (0, DAY - 1), (5, DAY - 1), (5, 1), (100, 10 * DAY), (-100000, 2 * DAY), (0, 0)] {
        try_instantiate(t, off, dur);
    }
}
