//! C15: replays every edge of the authorisation graph enumerated by TLC from spec/MC_Auth.tla.
//! Roles: o = deployer/owner (u1), p = u2, x = u3, pmc / fmc = the pool / farm manager contract addresses.
use crate::project::*;
use crate::sys::*;
use crate::trace::*;
use cosmwasm_std::{coin, Addr, Coin, Decimal, Uint64};
use mantra_dex_std::epoch_manager as em;
use mantra_dex_std::farm_manager as fm;
use mantra_dex_std::pool_manager as pm;
use serde_json::{json, Value};
use std::collections::{BTreeMap, HashMap, VecDeque};

fn role(s: &Sys, r: &str) -> Addr {
    match r {
        "o" => s.users[0].clone(),
        "p" => s.users[1].clone(),
        "x" => s.users[2].clone(),
        "pmc" => s.pool.clone(),
        "fmc" => s.farm.clone(),
        _ => s.stranger.clone(),
    }
}
fn role_of(s: &Sys, a: &str) -> String {
    for r in ["o", "p", "x", "pmc", "fmc"] {
        if role(s, r).as_str() == a {
            return r.to_string();
        }
    }
    format!("other:{a}")
}
fn contract(s: &Sys, c: &str) -> Addr {
    match c { "pm" => s.pool.clone(), "fm" => s.farm.clone(), "em" => s.epoch.clone(), _ => s.fee.clone() }
}
fn own_action(s: &Sys, msg: &Value) -> cw_ownable::Action {
    match msg["kind"].as_str().unwrap() {
        "transfer" => cw_ownable::Action::TransferOwnership {
            new_owner: role(s, msg["to"].as_str().unwrap()).to_string(),
            expiry: if msg["exp"] == "future" { Some(cw_utils::Expiration::AtTime(s.app.block_info().time.plus_seconds(1000))) } else { None },
        },
        "accept" => cw_ownable::Action::AcceptOwnership,
        _ => cw_ownable::Action::RenounceOwnership,
    }
}
/// executes the message of an edge; returns ok
fn send(s: &mut Sys, c: &str, sender: &Addr, msg: &Value, funds: bool, salt: u64) -> bool {
    let f: Vec<Coin> = if funds { vec![coin(1, "uom")] } else { vec![] };
    let ca = contract(s, c);
    let kind = msg["kind"].as_str().unwrap();
    let what = msg["what"].as_str().unwrap_or("");
    let other = s.users[3].to_string();
    if kind != "config" {
        let a = own_action(s, msg);
        return match c {
            "pm" => s.exec(sender, &ca, &pm::ExecuteMsg::UpdateOwnership(a), &f).is_ok(),
            "fm" => s.exec(sender, &ca, &fm::ExecuteMsg::UpdateOwnership(a), &f).is_ok(),
            "em" => s.exec(sender, &ca, &em::ExecuteMsg::UpdateOwnership(a), &f).is_ok(),
            _ => s.exec(sender, &ca, &mantra_dex_std::fee_collector::ExecuteMsg::UpdateOwnership(a), &f).is_ok(),
        };
    }
    match c {
        "pm" => {
            let tg = |sw: Option<bool>, dep: Option<bool>, wd: Option<bool>| Some(pm::FeatureToggle { pool_identifier: "o.a".into(), swaps_enabled: sw, deposits_enabled: dep, withdrawals_enabled: wd });
            let cur = s.q_pool("o.a").map(|p| p.pool_info.status);
            let m = match what {
                "nothing" => pm::ExecuteMsg::UpdateConfig { fee_collector_addr: None, farm_manager_addr: None, pool_creation_fee: None, feature_toggle: None },
                "fee_collector" => pm::ExecuteMsg::UpdateConfig { fee_collector_addr: Some(if salt % 2 == 0 { other } else { s.users[4].to_string() }), farm_manager_addr: None, pool_creation_fee: None, feature_toggle: None },
                "farm_manager" => pm::ExecuteMsg::UpdateConfig { fee_collector_addr: None, farm_manager_addr: Some(if salt % 2 == 0 { other } else { s.users[4].to_string() }), pool_creation_fee: None, feature_toggle: None },
                "pool_creation_fee" => pm::ExecuteMsg::UpdateConfig { fee_collector_addr: None, farm_manager_addr: None, pool_creation_fee: Some(coin(1001 + salt as u128, "uusd")), feature_toggle: None },
                "toggle_swaps" => pm::ExecuteMsg::UpdateConfig { fee_collector_addr: None, farm_manager_addr: None, pool_creation_fee: None, feature_toggle: tg(cur.as_ref().map(|c| !c.swaps_enabled), None, None) },
                "toggle_deposits" => pm::ExecuteMsg::UpdateConfig { fee_collector_addr: None, farm_manager_addr: None, pool_creation_fee: None, feature_toggle: tg(None, cur.as_ref().map(|c| !c.deposits_enabled), None) },
                _ => pm::ExecuteMsg::UpdateConfig { fee_collector_addr: None, farm_manager_addr: None, pool_creation_fee: None, feature_toggle: tg(None, None, cur.as_ref().map(|c| !c.withdrawals_enabled)) },
            };
            s.exec(sender, &ca, &m, &f).is_ok()
        }
        "fm" => {
            let cfg = s.q_fm_config();
            let mut m = (None, None, None, None, None, None, None, None, None, None);
            match what {
                "nothing" => {}
                "fee_collector" => m.0 = Some(if cfg.fee_collector_addr.as_str() == other { s.users[4].to_string() } else { other }),
                "epoch_manager" => m.1 = Some(if cfg.epoch_manager_addr.as_str() == other { s.users[4].to_string() } else { other }),
                "pool_manager" => m.2 = Some(if cfg.pool_manager_addr.as_str() == other { s.users[4].to_string() } else { other }),
                "create_farm_fee" => m.3 = Some(coin(cfg.create_farm_fee.amount.u128() + 1, "uom")),
                "max_concurrent_farms" => m.4 = Some(cfg.max_concurrent_farms + 1),
                "max_farm_epoch_buffer" => m.5 = Some(cfg.max_farm_epoch_buffer + 1),
                "min_unlocking_duration" => m.6 = Some(cfg.min_unlocking_duration + 1),
                "max_unlocking_duration" => m.7 = Some(cfg.max_unlocking_duration + 1),
                "farm_expiration_time" => m.8 = Some(cfg.farm_expiration_time + 1),
                _ => m.9 = Some(if cfg.emergency_unlock_penalty == Decimal::percent(10) { Decimal::percent(11) } else { Decimal::percent(10) }),
            }
            let msg = fm::ExecuteMsg::UpdateConfig {
                fee_collector_addr: m.0, epoch_manager_addr: m.1, pool_manager_addr: m.2, create_farm_fee: m.3, max_concurrent_farms: m.4,
                max_farm_epoch_buffer: m.5, min_unlocking_duration: m.6, max_unlocking_duration: m.7, farm_expiration_time: m.8, emergency_unlock_penalty: m.9,
            };
            s.exec(sender, &ca, &msg, &f).is_ok()
        }
        "em" => {
            let now = s.now();
            let cfg = s.q_em_config();
            let msg = if what == "nothing" { em::ExecuteMsg::UpdateConfig { epoch_config: None } } else {
                em::ExecuteMsg::UpdateConfig { epoch_config: Some(em::EpochConfig { duration: Uint64::new(cfg.epoch_config.duration.u64() + 1), genesis_epoch: Uint64::new(now + 10) }) } };
            s.exec(sender, &ca, &msg, &f).is_ok()
        }
        _ => false,
    }
}
fn cfg_json(s: &Sys, c: &str) -> String {
    match c {
        "pm" => format!("{:?}|{:?}", s.q_pm_config(), s.q_pool("o.a").map(|p| p.pool_info.status)),
        "fm" => format!("{:?}", s.q_fm_config()),
        "em" => format!("{:?}", s.q_em_config()),
        _ => String::new(),
    }
}
fn own_state(s: &Sys, c: &str) -> Value {
    let ca = contract(s, c);
    let r: cw_ownable::Ownership<String> = s.app.wrap().query_wasm_smart(ca, &pm::QueryMsg::Ownership {}).unwrap();
    let exp = match r.pending_expiry {
        None => "none",
        Some(e) => if e.is_expired(&s.app.block_info()) { "past" } else { "future" },
    };
    json!({"owner": r.owner.map(|a| role_of(s, &a)).unwrap_or("none".into()),
           "pending": r.pending_owner.map(|a| role_of(s, &a)).unwrap_or("none".into()), "exp": exp})
}
fn fresh() -> Sys {
    fresh_with(false)
}
fn fresh_with(admin: bool) -> Sys {
    let mut s = Sys::new(SysCfg { admin, ..Default::default() });
    // one pool so that feature toggles have a target
    let o = s.users[0].clone();
    s.exec_pm(&o, &pm::ExecuteMsg::CreatePool {
        asset_denoms: vec!["uusdc".into(), "uusdt".into()], asset_decimals: vec![6, 6], pool_fees: crate::drivers::farm::zero_fees(),
        pool_type: pm::PoolType::ConstantProduct, pool_identifier: Some("a".into()) }, &[coin(8888, "uom"), coin(1000, "uusd")]).unwrap();
    s
}
fn key(c: &str, st: &Value, cfgv: &Value) -> String {
    format!("{c}|{}|{}|{}|{}", st["owner"], st["pending"], st["exp"], cfgv)
}
fn apply_step(s: &mut Sys, c: &str, step: &Value, salt: u64) -> bool {
    if step["msg"]["kind"] == "tick" {
        s.advance(2000);
        return true;
    }
    let sender = role(s, step["sender"].as_str().unwrap());
    send(s, c, &sender, &step["msg"], step["funds"].as_bool().unwrap_or(false), salt)
}

// ---------------------------------------------------------------- farm- and position-level edges (contract "obj")
struct ObjWorld {
    s: Sys,
    lp1: String,
    lp2: String,
}
fn obj_role(w: &ObjWorld, r: &str) -> Addr {
    match r {
        "o" => w.s.users[0].clone(),
        "fo" => w.s.users[1].clone(),
        "po" => w.s.users[2].clone(),
        "x" => w.s.users[3].clone(),
        "pmc" => w.s.pool.clone(),
        _ => w.s.stranger.clone(),
    }
}
fn obj_fresh() -> ObjWorld {
    let mut s = Sys::new(SysCfg::default());
    let o = s.users[0].clone();
    for (id, a, b) in [("a", "uusdc", "uusdt"), ("b", "uom", "uusd")] {
        s.exec_pm(&o, &pm::ExecuteMsg::CreatePool { asset_denoms: vec![a.into(), b.into()], asset_decimals: vec![6, 6], pool_fees: crate::drivers::farm::zero_fees(),
            pool_type: pm::PoolType::ConstantProduct, pool_identifier: Some(id.into()) }, &[coin(8888, "uom"), coin(1000, "uusd")]).unwrap();
        for ui in 0..4 {
            let u = s.users[ui].clone();
            let mut f = vec![coin(10_000_000, a), coin(10_000_000, b)];
            f.sort_by(|x, y| x.denom.cmp(&y.denom));
            s.exec_pm(&u, &pm::ExecuteMsg::ProvideLiquidity { liquidity_max_slippage: None, swap_max_slippage: None, receiver: None, pool_identifier: format!("o.{id}"),
                unlocking_duration: None, lock_position_identifier: None }, &f).unwrap();
        }
    }
    let (lp1, lp2) = (s.lp_denom("o.a"), s.lp_denom("o.b"));
    let fo = s.users[1].clone();
    let po = s.users[2].clone();
    let fa = s.farm.clone();
    // the farm pays on lp2, the position is on lp1: the position never has pending rewards
    s.exec(&fo, &fa, &fm::ExecuteMsg::ManageFarm { action: fm::FarmAction::Create { params: fm::FarmParams { lp_denom: lp2.clone(), start_epoch: Some(1), preliminary_end_epoch: Some(5),
        curve: None, farm_asset: coin(8000, "uweth"), farm_identifier: Some("f".into()) } } }, &[coin(1000, "uom"), coin(8000, "uweth")]).unwrap();
    s.exec(&po, &fa, &fm::ExecuteMsg::ManagePosition { action: fm::PositionAction::Create { identifier: Some("t".into()), unlocking_duration: DAY, receiver: None } }, &[coin(5000, lp1.clone())]).unwrap();
    ObjWorld { s, lp1, lp2 }
}
fn obj_state(w: &ObjWorld) -> Value {
    let farm = w.s.q_farms().iter().any(|f| f.identifier == "m-f");
    let pos = match w.s.q_positions().into_iter().find(|p| p.identifier == "u-t") {
        None => "gone",
        Some(p) if p.open => "open",
        Some(p) => if p.expiring_at.map(|t| t <= w.s.now()).unwrap_or(false) { "unlocked" } else { "closed" },
    };
    json!({"farm": farm, "pos": pos})
}
fn obj_apply(w: &mut ObjWorld, step: &Value) -> bool {
    let m = step["m"].as_str().unwrap();
    if m == "tick" {
        w.s.advance(2 * DAY);
        return true;
    }
    let sender = obj_role(w, step["sender"].as_str().unwrap());
    let fa = w.s.farm.clone();
    let po = w.s.users[2].to_string();
    let (msg, funds): (fm::ExecuteMsg, Vec<Coin>) = match m {
        "farm_expand" => (fm::ExecuteMsg::ManageFarm { action: fm::FarmAction::Expand { params: fm::FarmParams { lp_denom: w.lp2.clone(), start_epoch: None, preliminary_end_epoch: None,
            curve: None, farm_asset: coin(2000, "uweth"), farm_identifier: Some("m-f".into()) } } }, vec![coin(2000, "uweth")]),
        "farm_close" => (fm::ExecuteMsg::ManageFarm { action: fm::FarmAction::Close { farm_identifier: "m-f".into() } }, vec![]),
        "pos_create_for_po" => (fm::ExecuteMsg::ManagePosition { action: fm::PositionAction::Create { identifier: None, unlocking_duration: DAY, receiver: Some(po) } }, vec![coin(1, w.lp1.clone())]),
        "pos_expand" => (fm::ExecuteMsg::ManagePosition { action: fm::PositionAction::Expand { identifier: "u-t".into() } }, vec![coin(1, w.lp1.clone())]),
        "pos_close" => (fm::ExecuteMsg::ManagePosition { action: fm::PositionAction::Close { identifier: "u-t".into(), lp_asset: None } }, vec![]),
        "pos_withdraw" => (fm::ExecuteMsg::ManagePosition { action: fm::PositionAction::Withdraw { identifier: "u-t".into(), emergency_unlock: None } }, vec![]),
        _ => (fm::ExecuteMsg::ManagePosition { action: fm::PositionAction::Withdraw { identifier: "u-t".into(), emergency_unlock: Some(true) } }, vec![]),
    };
    w.s.exec(&sender, &fa, &msg, &funds).is_ok()
}
fn run_obj(edges: &[Value], t: &mut Tracer) {
    let key = |v: &Value| format!("{}|{}", v["farm"], v["pos"]);
    let mut by_src: BTreeMap<String, Vec<usize>> = BTreeMap::new();
    for (i, e) in edges.iter().enumerate() {
        by_src.entry(key(&e["src"])).or_default().push(i);
    }
    let mut path_to: HashMap<String, Vec<usize>> = HashMap::new();
    let mut queue = VecDeque::new();
    let k0 = key(&json!({"farm": true, "pos": "open"}));
    path_to.insert(k0.clone(), vec![]);
    queue.push_back(k0);
    while let Some(k) = queue.pop_front() {
        let p = path_to[&k].clone();
        for &i in by_src.get(&k).map(|v| v.as_slice()).unwrap_or(&[]) {
            let k2 = key(&edges[i]["dst"]);
            if k2 != k && !path_to.contains_key(&k2) {
                let mut p2 = p.clone();
                p2.push(i);
                path_to.insert(k2.clone(), p2);
                queue.push_back(k2);
            }
        }
    }
    for (k, idxs) in &by_src {
        for &i in idxs {
            let e = &edges[i];
            let mut w = obj_fresh();
            let mut reached = true;
            for &j in path_to.get(k).map(|v| v.as_slice()).unwrap_or(&[]) {
                if !obj_apply(&mut w, &edges[j]["step"]) { reached = false; break; }
            }
            if !reached { t.emit("auth_unreachable", json!({"c": "obj", "src": e["src"]})); continue; }
            let src_obs = obj_state(&w);
            let d0 = w.s.digest();
            let ok = obj_apply(&mut w, &e["step"]);
            let d1 = w.s.digest();
            let obs = obj_state(&w);
            t.emit("auth_obj_edge", json!({"src": e["src"], "sender": e["step"]["sender"], "m": e["step"]["m"], "tick": e["step"]["m"] == "tick",
                "src_obs": src_obs, "ok": ok, "obs": obs, "digest_same": d0 == d1}));
        }
    }
}

/// the migrate entry points: every contract asked to migrate to the freshly stored code of every contract (its own included: the
/// same version), by the chain-level admin and by a stranger. Beyond the listed properties (S_ guards).
/// the one migration that does something: a deployment stored at v1.2.0 (pool records without switches) upgraded by the real
/// `migrate`: every pool comes out with all switches on, except the pool the upgrade names (o.ausdy.uusdc: swaps and deposits off)
fn run_upgrade_from_v120(t: &mut Tracer) {
    let mut s = fresh_with(true);
    let o = s.users[0].clone();
    for id in ["ausdy.uusdc", "zz", "b"] {
        let _ = s.exec_pm(&o, &pm::ExecuteMsg::CreatePool {
            asset_denoms: vec!["uusdc".into(), "uusdt".into()], asset_decimals: vec![6, 6], pool_fees: crate::drivers::farm::zero_fees(),
            pool_type: pm::PoolType::ConstantProduct, pool_identifier: Some(id.into()) }, &[coin(8888, "uom"), coin(1000, "uusd")]);
    }
    let pools_json = |s: &Sys| -> Value {
        let mut m = serde_json::Map::new();
        for id in ["o.a", "o.ausdy.uusdc", "o.b", "o.zz"] {
            if let Some(p) = s.q_pool(id) {
                let st = &p.pool_info.status;
                let mut rest = p.pool_info.clone();
                rest.status = Default::default();
                m.insert(id.to_string(), json!({"sw": st.swaps_enabled, "dep": st.deposits_enabled, "wd": st.withdrawals_enabled, "rest": format!("{:?}", rest)}));
            }
        }
        Value::Object(m)
    };
    let before = pools_json(&s);
    let n = s.downgrade_pool_manager_storage();
    let r = s.try_migrate("pm", "pm", &o);
    let after = pools_json(&s);
    t.emit("auth_upgrade", json!({"downgraded": n.clone().unwrap_or(0), "ok": r.is_ok(), "errtext": r.err().unwrap_or_default().chars().take(160).collect::<String>(),
        "named": "o.ausdy.uusdc", "before": before, "after": after}));
    // and again: the stored version is current now, nothing to upgrade
    let again = s.try_migrate("pm", "pm", &o);
    let after2 = pools_json(&s);
    t.emit("auth_upgrade_again", json!({"ok": again.is_ok(), "same": after2 == after}));
}

fn run_migrations(t: &mut Tracer) {
    run_upgrade_from_v120(t);
    for c in ["pm", "fm", "em", "fc"] {
        for code in ["pm", "fm", "em", "fc"] {
            for by_admin in [true, false] {
                let mut s = fresh_with(true);
                let sender = if by_admin { s.users[0].clone() } else { s.users[3].clone() };
                let before = s.digest();
                let r = s.try_migrate(c, code, &sender);
                let same = s.digest() == before;
                t.emit("auth_migrate", json!({"c": c, "code": code, "by_admin": by_admin, "newer": false, "ok": r.is_ok(),
                    "errtext": r.err().unwrap_or_default().chars().take(160).collect::<String>(), "digest_same": same}));
            }
        }
    }
}

pub fn run(path: &str, t: &mut Tracer) {
    let text = std::fs::read_to_string(path).expect("edges file");
    let all_edges: Vec<Value> = text.lines().filter_map(|l| serde_json::from_str(l).ok()).collect();
    let obj_edges: Vec<Value> = all_edges.iter().filter(|e| e["c"] == "obj").cloned().collect();
    let edges: Vec<Value> = all_edges.into_iter().filter(|e| e["c"] != "obj").collect();
    // shortest paths of accepted edges from the initial state of each contract to every source state
    let mut by_src: BTreeMap<String, Vec<usize>> = BTreeMap::new();
    for (i, e) in edges.iter().enumerate() {
        by_src.entry(key(e["c"].as_str().unwrap(), &e["src"], &e["cfgv"])).or_default().push(i);
    }
    let mut path_to: HashMap<String, Vec<usize>> = HashMap::new();
    let mut queue = VecDeque::new();
    for c in ["pm", "fm", "em", "fc"] {
        let k = key(c, &json!({"owner": "o", "pending": "none", "exp": "none"}), &json!(0));
        path_to.insert(k.clone(), vec![]);
        queue.push_back(k);
    }
    while let Some(k) = queue.pop_front() {
        let p = path_to[&k].clone();
        for &i in by_src.get(&k).map(|v| v.as_slice()).unwrap_or(&[]) {
            let e = &edges[i];
            let k2 = key(e["c"].as_str().unwrap(), &e["dst"], &dst_cfgv(e));
            if k2 != k && !path_to.contains_key(&k2) {
                let mut p2 = p.clone();
                p2.push(i);
                path_to.insert(k2.clone(), p2);
                queue.push_back(k2);
            }
        }
    }
    t.reset("auth_edges", json!({"edges": edges.len(), "obj_edges": obj_edges.len()}));
    run_migrations(t);
    run_obj(&obj_edges, t);
    let build = |k: &str, path_to: &HashMap<String, Vec<usize>>| -> Option<Sys> {
        let mut s = fresh();
        for (n, &i) in path_to.get(k)?.iter().enumerate() {
            let e = &edges[i];
            if !apply_step(&mut s, e["c"].as_str().unwrap(), &e["step"], n as u64) {
                return None;
            }
        }
        Some(s)
    };
    for (k, idxs) in &by_src {
        let mut shared: Option<Sys> = None;
        for &i in idxs {
            let e = &edges[i];
            let c = e["c"].as_str().unwrap();
            let step = &e["step"];
            let accepted_pred = step["ok"].as_bool().unwrap_or(false);
            // rejected edges share one deployment (they must leave it unchanged, which is checked); accepted ones get a fresh one
            let mut s = if accepted_pred || shared.is_none() {
                match build(k, &path_to) { Some(s) => s, None => { t.emit("auth_unreachable", json!({"c": c, "src": e["src"], "cfgv": e["cfgv"]})); continue; } }
            } else {
                shared.take().unwrap()
            };
            let src_obs = own_state(&s, c);
            let cfg0 = cfg_json(&s, c);
            let d0 = s.digest();
            let ok = apply_step(&mut s, c, step, 7);
            let obs = own_state(&s, c);
            let cfg1 = cfg_json(&s, c);
            let d1 = s.digest();
            t.emit("auth_edge", json!({"c": c, "src": e["src"], "cfgv": e["cfgv"], "sender": step["sender"], "msg": step["msg"], "funds": step["funds"],
                "src_obs": src_obs, "ok": ok, "obs": obs, "cfg_changed": cfg0 != cfg1, "digest_same": d0 == d1, "tick": step["msg"]["kind"] == "tick"}));
            if !accepted_pred && ok == false && d0 == d1 {
                shared = Some(s);
            }
        }
    }
}
fn dst_cfgv(e: &Value) -> Value {
    let ok = e["step"]["ok"].as_bool().unwrap_or(false);
    if ok && e["step"]["msg"]["kind"] == "config" { json!(1) } else { e["cfgv"].clone() }
}
