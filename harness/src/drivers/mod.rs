pub mod epoch;
