pub mod epoch;
pub mod farm;
pub mod farm_replay;
pub mod pool;
