pub mod epoch;
pub mod farm;
pub mod farm_replay;
pub mod pool;
pub mod auth;
pub mod fault;
pub mod pool_replay;
