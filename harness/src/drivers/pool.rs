//! Pool-manager drivers. One trace event per executed message or query pair; the full projected
//! state (pools, balances, supplies, farm-manager positions) is logged after every event.
use crate::drivers::farm::funds_json;
use crate::project::*;
use crate::sys::*;
use crate::trace::*;
use cosmwasm_std::{coin, Addr, BankMsg, Coin, Decimal, Uint128};
use cw_multi_test::Executor;
use mantra_dex_std::fee::{Fee, PoolFee};
use mantra_dex_std::pool_manager as pm;
use rand::rngs::StdRng;
use rand::seq::SliceRandom;
use rand::Rng;
use serde_json::{json, Value};

pub struct PW<'a> {
    pub s: Sys,
    pub t: &'a mut Tracer,
    pub mask: Mask,
    /// when replaying a TLC behaviour of MC_Pool: the model's prediction for the next event
    pub model_note: Option<Value>,
    /// accounts (model name, address) and denoms (model name, real denom) whose balance changes since `base` are reported with it
    pub watch: Vec<(String, Addr)>,
    pub watch_denoms: Vec<(String, String)>,
    pub base: Vec<Vec<u128>>,
    /// the next deposit names its receiver by this (unparseable) string; the contract falls back to the sender, which is what
    /// the event then says ("receiver": "none")
    pub raw_receiver: Option<String>,
    /// the next `update_config` also re-points the fee collector to this account
    pub next_fee_collector: Option<Addr>,
    /// the scenario's author knows that the two-step sequence (swap half, deposit) would be accepted here, so the next
    /// single-asset deposit has to be accepted as well
    pub expect_ok: bool,
}

pub fn fees(protocol: u64, swap: u64, burn: u64, extra: &[u64]) -> PoolFee {
    // arguments in 1/100000 (0.001%)
    let f = |x: u64| Fee { share: Decimal::from_ratio(x as u128, 100_000u128) };
    PoolFee { protocol_fee: f(protocol), swap_fee: f(swap), burn_fee: f(burn), extra_fees: extra.iter().map(|x| f(*x)).collect() }
}
fn opt_dec_json(d: Option<Decimal>) -> Value {
    match d {
        Some(d) => json!({"set": true, "v": dec(d)}),
        None => json!({"set": false, "v": []}),
    }
}
fn attr(r: &cw_multi_test::AppResponse, key: &str) -> Option<String> {
    for e in &r.events {
        if e.ty == "wasm" {
            for a in &e.attributes {
                if a.key == key {
                    return Some(a.value.clone());
                }
            }
        }
    }
    None
}
fn attrs_all(r: &cw_multi_test::AppResponse, key: &str) -> Vec<String> {
    let mut v = vec![];
    for e in &r.events {
        if e.ty == "wasm" {
            for a in &e.attributes {
                if a.key == key {
                    v.push(a.value.clone());
                }
            }
        }
    }
    v
}
fn sim_json(r: &Result<pm::SimulationResponse, String>) -> Value {
    match r {
        Ok(x) => json!({"ok": true, "ret": u(x.return_amount), "swap": u(x.swap_fee_amount), "protocol": u(x.protocol_fee_amount),
                        "burn": u(x.burn_fee_amount), "extra": u(x.extra_fees_amount), "slip": u(x.slippage_amount)}),
        Err(e) => json!({"ok": false, "ret": [], "swap": [], "protocol": [], "burn": [], "extra": [], "slip": [], "panic": e.starts_with("panic")}),
    }
}

impl<'a> PW<'a> {
    pub fn new(cfg: SysCfg, t: &'a mut Tracer, name: &str) -> PW<'a> {
        let mut s = Sys::new(cfg);
        let mask = Mask { pools: true, farms: true, epoch: true, owners: false };
        let st = s.snapshot(mask);
        t.reset(name, st);
        PW { s, t, mask, model_note: None, watch: vec![], watch_denoms: vec![], base: vec![], raw_receiver: None, next_fee_collector: None, expect_ok: false }
    }
    pub fn user(&self, i: usize) -> Addr {
        self.s.users[i].clone()
    }
    fn finish(&mut self, ev: &str, mut body: Value, r: &anyhow::Result<cw_multi_test::AppResponse>) -> bool {
        let post = self.s.snapshot(self.mask);
        let o = body.as_object_mut().unwrap();
        o.insert("ok".into(), json!(r.is_ok()));
        o.insert("err".into(), json!(r.as_ref().err().map(err_class).unwrap_or("none".into())));
        if let Err(e) = r {
            o.insert("errtext".into(), json!(err_text(e)));
        }
        o.insert("post".into(), post);
        match self.model_note.take() {
            Some(m) => {
                let mut delta = serde_json::Map::new();
                for (i, (name, addr)) in self.watch.iter().enumerate() {
                    let mut per = serde_json::Map::new();
                    for (j, (dn, real)) in self.watch_denoms.iter().enumerate() {
                        let now = self.s.balance(addr, real) as i128;
                        per.insert(dn.clone(), json!((now - self.base[i][j] as i128) as i64));
                    }
                    delta.insert(name.clone(), Value::Object(per));
                }
                o.insert("model".into(), json!({"set": true, "post": m, "delta": Value::Object(delta)}));
            }
            None => { o.insert("model".into(), json!({"set": false})); }
        }
        self.t.emit(ev, body);
        r.is_ok()
    }
    pub fn creation_funds(&self) -> Vec<Coin> {
        let c = self.s.q_pm_config();
        let mut v = vec![c.pool_creation_fee.clone()];
        for f in self.s.cfg.tf_fee.clone() {
            if let Some(x) = v.iter_mut().find(|x| x.denom == f.denom) {
                x.amount += f.amount;
            } else {
                v.push(f);
            }
        }
        v.retain(|c| !c.amount.is_zero());
        v.sort_by(|a, b| a.denom.cmp(&b.denom));
        v
    }
    #[allow(clippy::too_many_arguments)]
    pub fn create_pool(&mut self, sender: &Addr, denoms: &[&str], decs: &[u8], f: PoolFee, ty: pm::PoolType, id: Option<&str>, funds: &[Coin]) -> bool {
        let m = pm::ExecuteMsg::CreatePool {
            asset_denoms: denoms.iter().map(|s| s.to_string()).collect(),
            asset_decimals: decs.to_vec(),
            pool_fees: f.clone(),
            pool_type: ty.clone(),
            pool_identifier: id.map(|s| s.to_string()),
        };
        let r = self.s.exec_pm_guarded(sender, &m, funds);
        let (kind, amp) = match ty {
            pm::PoolType::ConstantProduct => ("cp", 0u64),
            pm::PoolType::StableSwap { amp } => ("ss", amp),
        };
        let body = json!({"sender": self.s.sym_of(sender.as_str()), "denoms": denoms, "dec": decs, "fee": self.s.fee_json(&f),
            "kind": kind, "amp": limbs64(amp), "id": id.unwrap_or("none"), "funds": funds_json(&self.s, funds),
            // syntactic facts about the requested identifier (TLC has no string operations)
            "id_len": id.map(|s| s.len()).unwrap_or(0),
            "id_chars_ok": id.map(|s| s.chars().all(|c| c.is_ascii_alphanumeric() || c == '/' || c == '.')).unwrap_or(true),
            "tf": funds_json(&self.s, &self.s.cfg.tf_fee.clone())});
        self.finish("pm_create_pool", body, &r)
    }
    #[allow(clippy::too_many_arguments)]
    pub fn provide(&mut self, sender: &Addr, pool: &str, funds: &[Coin], receiver: Option<&Addr>, lock_dur: Option<u64>, lock_id: Option<&str>,
                   liq_slip: Option<Decimal>, swap_slip: Option<Decimal>) -> bool {
        // for single-asset deposits: the quote of the internal swap of half of the deposit
        let mut half_quote = json!({"ok": false, "ret": [], "swap": [], "protocol": [], "burn": [], "extra": [], "slip": []});
        if funds.len() == 1 {
            if let Some(p) = self.s.q_pool(pool) {
                if let Some(other) = p.pool_info.asset_denoms.iter().find(|d| **d != funds[0].denom) {
                    let half = coin(funds[0].amount.u128() / 2, funds[0].denom.clone());
                    let r: Result<pm::SimulationResponse, String> = self.s.query(&self.s.pool, &pm::QueryMsg::Simulation {
                        offer_asset: half, ask_asset_denom: other.clone(), pool_identifier: pool.to_string() });
                    half_quote = sim_json(&r);
                }
            }
        }
        let m = pm::ExecuteMsg::ProvideLiquidity {
            liquidity_max_slippage: liq_slip,
            swap_max_slippage: swap_slip,
            receiver: self.raw_receiver.take().or(receiver.map(|a| a.to_string())),
            pool_identifier: pool.to_string(),
            unlocking_duration: lock_dur,
            lock_position_identifier: lock_id.map(|s| s.to_string()),
        };
        let r = self.s.exec_pm_guarded(sender, &m, funds);
        let shares = r.as_ref().ok().and_then(|r| attrs_all(r, "added_shares").last().cloned()).unwrap_or_default();
        let body = json!({"sender": self.s.sym_of(sender.as_str()), "pool": pool, "funds": funds_json(&self.s, funds),
            "receiver": receiver.map(|a| self.s.sym_of(a.as_str())).unwrap_or("none".into()),
            "lock": match lock_dur { Some(d) => json!({"set": true, "dur": limbs64(d)}), None => json!({"set": false, "dur": []}) },
            "lock_id": lock_id.unwrap_or("none"), "liq_slip": opt_dec_json(liq_slip), "swap_slip": opt_dec_json(swap_slip),
            "single": funds.len() == 1, "half_quote": half_quote, "expect_ok": std::mem::take(&mut self.expect_ok),
            "added_shares": if shares.is_empty() { json!([]) } else { limbs_str(&shares) }});
        self.finish("pm_provide", body, &r)
    }
    pub fn withdraw(&mut self, sender: &Addr, pool: &str, funds: &[Coin]) -> bool {
        let m = pm::ExecuteMsg::WithdrawLiquidity { pool_identifier: pool.to_string() };
        let r = self.s.exec_pm_guarded(sender, &m, funds);
        let body = json!({"sender": self.s.sym_of(sender.as_str()), "pool": pool, "funds": funds_json(&self.s, funds)});
        self.finish("pm_withdraw", body, &r)
    }
    pub fn simulate(&self, pool: &str, offer: &Coin, ask: &str) -> Result<pm::SimulationResponse, String> {
        self.s.query(&self.s.pool, &pm::QueryMsg::Simulation { offer_asset: offer.clone(), ask_asset_denom: ask.to_string(), pool_identifier: pool.to_string() })
    }
    #[allow(clippy::too_many_arguments)]
    pub fn swap(&mut self, sender: &Addr, pool: &str, funds: &[Coin], ask: &str, belief: Option<Decimal>, max_slip: Option<Decimal>, receiver: Option<&Addr>) -> bool {
        let quote = if funds.len() == 1 { sim_json(&self.simulate(pool, &funds[0], ask)) } else { sim_json(&Err("no quote".into())) };
        let m = pm::ExecuteMsg::Swap {
            ask_asset_denom: ask.to_string(),
            belief_price: belief,
            max_slippage: max_slip,
            receiver: receiver.map(|a| a.to_string()),
            pool_identifier: pool.to_string(),
        };
        let r = self.s.exec_pm_guarded(sender, &m, funds);
        let a = |k: &str| -> Value { r.as_ref().ok().and_then(|r| attr(r, k)).map(|s| limbs_str(&s)).unwrap_or(json!([])) };
        let attrs = json!({"ret": a("return_amount"), "swap": a("swap_fee_amount"), "protocol": a("protocol_fee_amount"),
            "burn": a("burn_fee_amount"), "extra": a("extra_fees_amount"), "slip": a("slippage_amount")});
        let body = json!({"sender": self.s.sym_of(sender.as_str()), "pool": pool, "funds": funds_json(&self.s, funds), "ask": self.s.dsym(ask),
            "belief": opt_dec_json(belief), "max_slip": opt_dec_json(max_slip),
            "receiver": receiver.map(|a| self.s.sym_of(a.as_str())).unwrap_or("none".into()), "quote": quote, "attrs": attrs});
        self.finish("pm_swap", body, &r)
    }
    /// hops: (pool id, token in, token out)
    pub fn route(&mut self, sender: &Addr, hops: &[(String, String, String)], funds: &[Coin], min_receive: Option<u128>, receiver: Option<&Addr>, max_slip: Option<Decimal>) -> bool {
        let ops: Vec<pm::SwapOperation> = hops.iter().map(|(p, i, o)| pm::SwapOperation::MantraSwap { token_in_denom: i.clone(), token_out_denom: o.clone(), pool_identifier: p.clone() }).collect();
        let offer = funds.first().map(|c| c.amount).unwrap_or_default();
        let q: Result<pm::SimulateSwapOperationsResponse, String> = self.s.query(&self.s.pool, &pm::QueryMsg::SimulateSwapOperations { offer_amount: offer, operations: ops.clone() });
        let cj = |v: &Vec<Coin>| v.iter().map(|c| json!({"d": self.s.dsym(&c.denom), "a": u(c.amount)})).collect::<Vec<_>>();
        let asc = |v: &Vec<Coin>| v.windows(2).all(|p| p[0].denom < p[1].denom);
        let quote = match &q {
            Ok(x) => json!({"ok": true, "ret": u(x.return_amount), "swap_fees": cj(&x.swap_fees), "protocol_fees": cj(&x.protocol_fees), "burn_fees": cj(&x.burn_fees),
                            "lists_sorted": asc(&x.swap_fees) && asc(&x.protocol_fees) && asc(&x.burn_fees)}),
            Err(_) => json!({"ok": false, "ret": [], "swap_fees": [], "protocol_fees": [], "burn_fees": [], "lists_sorted": true}),
        };
        let m = pm::ExecuteMsg::ExecuteSwapOperations { operations: ops, minimum_receive: min_receive.map(Uint128::new), receiver: receiver.map(|a| a.to_string()), max_slippage: max_slip };
        let r = self.s.exec_pm_guarded(sender, &m, funds);
        // per-hop results from the "swap" attributes: in=<coin>, out=<coin>, burn_fee=<coin>, protocol_fee=<coin>, swap_fee=<coin>
        let mut per_hop = vec![];
        if let Ok(resp) = &r {
            for sw in attrs_all(resp, "swap") {
                let mut o = serde_json::Map::new();
                for part in sw.split(", ") {
                    if let Some((k, v)) = part.split_once('=') {
                        let digits: String = v.chars().take_while(|c| c.is_ascii_digit()).collect();
                        o.insert(k.to_string(), limbs_str(&digits));
                    }
                }
                per_hop.push(Value::Object(o));
            }
        }
        let body = json!({"sender": self.s.sym_of(sender.as_str()), "funds": funds_json(&self.s, funds),
            "hops": hops.iter().map(|(p, i, o)| json!({"pool": p, "in": self.s.dsym(i), "out": self.s.dsym(o)})).collect::<Vec<_>>(),
            "min_receive": match min_receive { Some(x) => json!({"set": true, "v": limbs(x)}), None => json!({"set": false, "v": []}) },
            "max_slip": opt_dec_json(max_slip), "receiver": receiver.map(|a| self.s.sym_of(a.as_str())).unwrap_or("none".into()),
            "quote": quote, "per_hop": per_hop, "final": r.as_ref().ok().and_then(|r| attr(r, "return_amount")).map(|s| limbs_str(&s)).unwrap_or(json!([]))});
        self.finish("pm_route", body, &r)
    }
    /// reverse simulation followed by the forward simulation of (quoted offer + 1)
    pub fn rsim(&mut self, pool: &str, ask: &Coin, offer_denom: &str) {
        let r: Result<pm::ReverseSimulationResponse, String> = self.s.query(&self.s.pool, &pm::QueryMsg::ReverseSimulation {
            ask_asset: ask.clone(), offer_asset_denom: offer_denom.to_string(), pool_identifier: pool.to_string() });
        let (ok, offer) = match &r { Ok(x) => (true, x.offer_amount.u128()), Err(_) => (false, 0) };
        let f1 = if ok { sim_json(&self.simulate(pool, &coin(offer + 1, offer_denom), &ask.denom)) } else { sim_json(&Err("n/a".into())) };
        let f0 = if ok { sim_json(&self.simulate(pool, &coin(offer, offer_denom), &ask.denom)) } else { sim_json(&Err("n/a".into())) };
        let kind = self.s.q_pool(pool).map(|p| match p.pool_info.pool_type { pm::PoolType::ConstantProduct => "cp", _ => "ss" }).unwrap_or("none");
        self.t.emit("q_rsim", json!({"pool": pool, "kind": kind, "ask": {"d": self.s.dsym(&ask.denom), "a": u(ask.amount)}, "offer_denom": self.s.dsym(offer_denom),
            "ok": ok, "offer": limbs(offer), "fwd_plus1": f1, "fwd": f0}));
    }
    /// AssetDecimals for every denom of every pool and one foreign denom per pool (judged against the pool records of the state)
    pub fn decimals(&mut self) {
        let mut items = vec![];
        for p in self.s.q_pools() {
            let id = p.pool_info.pool_identifier.clone();
            let mut ds: Vec<String> = p.pool_info.asset_denoms.clone();
            ds.push(p.pool_info.lp_denom.clone());
            for d in ds {
                let r: Result<pm::AssetDecimalsResponse, String> = self.s.query(&self.s.pool, &pm::QueryMsg::AssetDecimals { pool_identifier: id.clone(), denom: d.clone() });
                items.push(json!({"pool": id, "denom": self.s.dsym(&d), "ok": r.is_ok(), "dec": r.as_ref().map(|x| x.decimals as i64).unwrap_or(-1),
                    "echo": r.as_ref().map(|x| x.pool_identifier == id && x.denom == d).unwrap_or(false)}));
            }
        }
        let r: Result<pm::AssetDecimalsResponse, String> = self.s.query(&self.s.pool, &pm::QueryMsg::AssetDecimals { pool_identifier: "o.no.such.pool".into(), denom: "uusdc".into() });
        items.push(json!({"pool": "o.no.such.pool", "denom": "uusdc", "ok": r.is_ok(), "dec": -1, "echo": false}));
        self.t.emit("q_decimals", json!({"items": items}));
    }
    /// ReverseSimulateSwapOperations next to the single reverse simulations it stands for, asked from the last hop back
    pub fn rroute(&mut self, ask: u128, hops: &[(String, String, String)]) {
        let ops: Vec<pm::SwapOperation> = hops.iter().map(|(p, i, o)| pm::SwapOperation::MantraSwap { token_in_denom: i.clone(), token_out_denom: o.clone(), pool_identifier: p.clone() }).collect();
        let r: Result<pm::ReverseSimulateSwapOperationsResponse, String> = self.s.query(&self.s.pool, &pm::QueryMsg::ReverseSimulateSwapOperations { ask_amount: Uint128::new(ask), operations: ops });
        let mut need = ask;
        let mut chain = vec![];
        for (p, i, o) in hops.iter().rev() {
            let q: Result<pm::ReverseSimulationResponse, String> = self.s.query(&self.s.pool, &pm::QueryMsg::ReverseSimulation {
                ask_asset: coin(need, o.clone()), offer_asset_denom: i.clone(), pool_identifier: p.clone() });
            match q {
                Ok(x) => {
                    chain.push(json!({"pool": p, "out": self.s.dsym(o), "ask": limbs(need), "ok": true, "offer": u(x.offer_amount), "swap": u(x.swap_fee_amount),
                        "protocol": u(x.protocol_fee_amount), "burn": u(x.burn_fee_amount), "extra": u(x.extra_fees_amount), "slip": u(x.slippage_amount)}));
                    need = x.offer_amount.u128();
                }
                Err(_) => {
                    chain.push(json!({"pool": p, "out": self.s.dsym(o), "ask": limbs(need), "ok": false, "offer": [], "swap": [], "protocol": [], "burn": [], "extra": [], "slip": []}));
                    break;
                }
            }
        }
        let cj = |v: &Vec<Coin>| v.iter().map(|c| json!({"d": self.s.dsym(&c.denom), "a": u(c.amount)})).collect::<Vec<_>>();
        let e: Vec<Coin> = vec![];
        let (offer, sw, pr, bu, ex, sl) = match &r {
            Ok(x) => (u(x.offer_amount), cj(&x.swap_fees), cj(&x.protocol_fees), cj(&x.burn_fees), cj(&x.extra_fees), cj(&x.slippage_amounts)),
            Err(_) => (json!([]), cj(&e), cj(&e), cj(&e), cj(&e), cj(&e)),
        };
        let asc = |v: &Vec<Coin>| v.windows(2).all(|p| p[0].denom < p[1].denom);
        let sorted_lists = match &r { Ok(x) => asc(&x.swap_fees) && asc(&x.protocol_fees) && asc(&x.burn_fees) && asc(&x.extra_fees) && asc(&x.slippage_amounts), Err(_) => true };
        self.t.emit("q_rroute", json!({"n": hops.len(), "ask": limbs(ask), "ok": r.is_ok(), "offer": offer, "chain": chain, "lists_sorted": sorted_lists,
            "swap_fees": sw, "protocol_fees": pr, "burn_fees": bu, "extra_fees": ex, "slippage_amounts": sl}));
    }
    /// Pools{} page by page against the full listing
    pub fn pages(&mut self, limit: u32) {
        let all: Vec<String> = self.s.q_pools().iter().map(|p| p.pool_info.pool_identifier.clone()).collect();
        let mut paged: Vec<String> = vec![];
        let mut sizes: Vec<usize> = vec![];
        let mut start_after: Option<String> = None;
        loop {
            let r: Result<pm::PoolsResponse, String> = self.s.query(&self.s.pool, &pm::QueryMsg::Pools { pool_identifier: None, start_after: start_after.clone(), limit: Some(limit) });
            let Ok(r) = r else { break };
            if r.pools.is_empty() { break; }
            sizes.push(r.pools.len());
            start_after = Some(r.pools.last().unwrap().pool_info.pool_identifier.clone());
            paged.extend(r.pools.iter().map(|p| p.pool_info.pool_identifier.clone()));
            if paged.len() > 10_000 { break; }
        }
        self.t.emit("q_pages", json!({"what": "pools", "limit": limit, "all": all, "paged": paged, "page_sizes": sizes}));
    }
    pub fn update_config(&mut self, sender: &Addr, toggle: Option<pm::FeatureToggle>, fee: Option<Coin>, funds: &[Coin], what: &str) -> bool {
        let m = pm::ExecuteMsg::UpdateConfig { fee_collector_addr: self.next_fee_collector.take().map(|a| a.to_string()), farm_manager_addr: None, pool_creation_fee: fee.clone(), feature_toggle: toggle.clone() };
        let r = self.s.exec_pm_guarded(sender, &m, funds);
        let tj = match &toggle {
            Some(t) => json!({"set": true, "pool": t.pool_identifier,
                "sw": t.swaps_enabled.map(|b| if b { 1 } else { 0 }).unwrap_or(-1),
                "dep": t.deposits_enabled.map(|b| if b { 1 } else { 0 }).unwrap_or(-1),
                "wd": t.withdrawals_enabled.map(|b| if b { 1 } else { 0 }).unwrap_or(-1)}),
            None => json!({"set": false}),
        };
        let fj = match &fee {
            Some(c) => json!({"set": true, "denom": self.s.dsym(&c.denom), "amt": u(c.amount)}),
            None => json!({"set": false, "denom": "none", "amt": []}),
        };
        let body = json!({"sender": self.s.sym_of(sender.as_str()), "owner": "u1", "toggle": tj, "fee": fj, "what": what, "funds": funds_json(&self.s, funds)});
        self.finish("pm_update_config", body, &r)
    }
    pub fn donate(&mut self, from: &Addr, c: Coin) {
        let to = self.s.pool.clone();
        let r = self.s.app.execute(from.clone(), BankMsg::Send { to_address: to.to_string(), amount: vec![c.clone()] }.into());
        let body = json!({"sender": self.s.sym_of(from.as_str()), "funds": funds_json(&self.s, &[c])});
        self.finish("donate", body, &r);
    }
    pub fn advance(&mut self, secs: u64) {
        self.s.advance(secs);
        let post = self.s.snapshot(self.mask);
        self.t.emit("advance", json!({"secs": limbs64(secs), "post": post}));
    }
}

impl Sys {
    pub fn exec_pm_guarded(&mut self, sender: &Addr, m: &pm::ExecuteMsg, f: &[Coin]) -> anyhow::Result<cw_multi_test::AppResponse> {
        let pa = self.pool.clone();
        self.exec(sender, &pa, m, f)
    }
}

fn sorted(mut v: Vec<Coin>) -> Vec<Coin> {
    v.sort_by(|a, b| a.denom.cmp(&b.denom));
    v
}
pub const SS: fn(u64) -> pm::PoolType = |amp| pm::PoolType::StableSwap { amp };
pub const CP: pm::PoolType = pm::PoolType::ConstantProduct;

// ------------------------------------------------------------------------------------ fixed scenarios
/// C16: pool creation parameter classes and fund combinations
fn sc_create_pool_classes(t: &mut Tracer, cfg: SysCfg, name: &str) {
    let mut w = PW::new(cfg, t, name);
    let (o, b) = (w.user(0), w.user(1));
    let ok = w.creation_funds();
    let f0 = fees(100, 200, 50, &[30]);
    // asset count / duplicates / decimals mismatch / amp
    w.create_pool(&b, &["uusdc"], &[6], f0.clone(), CP, Some("one"), &ok);
    w.create_pool(&b, &["uusdc", "uusdt", "uusd"], &[6, 6, 6], f0.clone(), CP, Some("cp3"), &ok);
    w.create_pool(&b, &["uusdc", "uusdc"], &[6, 6], f0.clone(), CP, Some("dup"), &ok);
    w.create_pool(&b, &["uusdc", "uusdt", "uusdc"], &[6, 6, 6], f0.clone(), SS(10), Some("dup3"), &ok);
    w.create_pool(&b, &["uusdc", "uusdt"], &[6], f0.clone(), CP, Some("dec1"), &ok);
    w.create_pool(&b, &["uusdc", "uusdt"], &[6, 6, 6], f0.clone(), CP, Some("dec3"), &ok);
    w.create_pool(&b, &["uusdc", "uusdt"], &[6, 6], f0.clone(), SS(0), Some("amp0"), &ok);
    w.create_pool(&b, &["uom", "uusd", "uusdc", "uusdt", "uweth"], &[6, 6, 6, 6, 6], f0.clone(), SS(10), Some("five"), &ok);
    // a stableswap "pool" of a single asset
    w.create_pool(&b, &["uusdc"], &[6], f0.clone(), SS(85), Some("single"), &ok);
    w.create_pool(&b, &["uusdc"], &[6], f0.clone(), CP, Some("singlecp"), &ok);
    // fee boundaries: each < 100%, total <= 20%
    w.create_pool(&b, &["uusdc", "uusdt"], &[6, 6], fees(100_000, 0, 0, &[]), CP, Some("fee100"), &ok);
    w.create_pool(&b, &["uusdc", "uusdt"], &[6, 6], fees(10_000, 10_000, 1, &[]), CP, Some("fee20plus"), &ok);
    w.create_pool(&b, &["uusdc", "uusdt"], &[6, 6], fees(5_000, 5_000, 5_000, &[2_500, 2_501]), CP, Some("fee20plusx"), &ok);
    w.create_pool(&b, &["uusdc", "uusdt"], &[6, 6], fees(5_000, 5_000, 5_000, &[2_500, 2_500]), CP, Some("fee20"), &ok); // exactly 20%: ok
    // funds: under, over, extra denom, none, split coins
    let mut under = ok.clone();
    under[0].amount -= Uint128::one();
    w.create_pool(&b, &["uusdc", "uusdt"], &[6, 6], f0.clone(), CP, Some("under"), &under);
    let mut over = ok.clone();
    over[0].amount += Uint128::one();
    w.create_pool(&b, &["uusdc", "uusdt"], &[6, 6], f0.clone(), CP, Some("over"), &over);
    if ok.len() > 1 {
        let mut over2 = ok.clone();
        over2[1].amount += Uint128::one();
        w.create_pool(&b, &["uusdc", "uusdt"], &[6, 6], f0.clone(), CP, Some("over2"), &over2);
        w.create_pool(&b, &["uusdc", "uusdt"], &[6, 6], f0.clone(), CP, Some("onlyone"), &ok[..1]);
    }
    let mut extra = ok.clone();
    extra.push(coin(7, "uweth"));
    w.create_pool(&b, &["uusdc", "uusdt"], &[6, 6], f0.clone(), CP, Some("extra"), &sorted(extra));
    w.create_pool(&b, &["uusdc", "uusdt"], &[6, 6], f0.clone(), CP, Some("nofunds"), &[]);
    // identifiers: explicit "1" becomes o.1, generated p.1; "p.1" explicit becomes o.p.1; invalid characters; duplicates
    w.create_pool(&b, &["uusdc", "uusdt"], &[6, 6], f0.clone(), CP, Some("1"), &ok);
    w.create_pool(&b, &["uusdc", "uusdt"], &[6, 6], f0.clone(), CP, None, &ok);
    w.create_pool(&b, &["uusdc", "uusdt"], &[6, 6], f0.clone(), SS(85), Some("p.1"), &ok);
    w.create_pool(&b, &["uusdc", "uusdt"], &[6, 6], f0.clone(), CP, Some("1"), &ok); // duplicate
    w.create_pool(&b, &["uusdc", "uusdt"], &[6, 6], f0.clone(), CP, Some("bad-id"), &ok);
    w.create_pool(&b, &["uusdc", "uusdt"], &[6, 6], f0.clone(), CP, Some("waytoolongidentifierwaytoolongidentifierwaytoolongidentifier"), &ok);
    // the LP subdenom "o.<id>.LP" has to fit the token factory's 44 characters: 39 characters fit, 40 do not
    w.create_pool(&b, &["uusdc", "uusdt"], &[6, 6], f0.clone(), CP, Some("x234567890123456789012345678901234567890"), &ok);
    w.create_pool(&b, &["uusdc", "uusdt"], &[6, 6], f0.clone(), CP, Some("x23456789012345678901234567890123456789"), &ok);
    w.create_pool(&b, &["uusdc", "uusdt"], &[6, 6], f0.clone(), CP, Some("a/b.c"), &ok);
    w.create_pool(&b, &["uusdc", "uusdt"], &[6, 6], f0.clone(), CP, Some("sp ace"), &ok);
    w.create_pool(&b, &["uusdc", "uusdt"], &[6, 6], f0.clone(), CP, None, &ok); // p.2
    w.create_pool(&o, &["uusd", "uusdc", "uusdt", "uweth"], &[6, 6, 6, 18], f0.clone(), SS(1000), Some("four"), &ok);
    // later history: deposits, swaps, toggles and config updates must never rewrite pool parameters
    let fp = sorted(vec![coin(2_000_000, "uusdc"), coin(3_000_000, "uusdt")]);
    w.provide(&b, "o.1", &fp, None, None, None, None, None);
    w.swap(&b, "o.1", &[coin(1000, "uusdc")], "uusdt", None, None, None);
    w.update_config(&o, Some(pm::FeatureToggle { pool_identifier: "o.1".into(), swaps_enabled: Some(false), deposits_enabled: None, withdrawals_enabled: None }), None, &[], "toggle");
    w.update_config(&o, None, Some(coin(77, "uusdc")), &[], "creation fee -> 77 uusdc");
    let ok2 = w.creation_funds();
    w.create_pool(&b, &["uusdc", "uusdt"], &[6, 6], f0.clone(), CP, Some("afterfee"), &ok2);
    w.create_pool(&b, &["uusdc", "uusdt"], &[6, 6], f0.clone(), CP, Some("oldfee"), &ok);
    w.update_config(&o, None, Some(coin(0, "uusd")), &[], "creation fee -> 0");
    let ok3 = w.creation_funds();
    let mut extra0 = ok3.clone();
    extra0.push(coin(500, "uweth"));
    w.create_pool(&b, &["uusdc", "uusdt"], &[6, 6], f0.clone(), CP, Some("zerofeeextra"), &sorted(extra0));
    let mut extra1 = ok3.clone();
    extra1.push(coin(1, "uusd"));
    w.create_pool(&b, &["uusdc", "uusdt"], &[6, 6], f0.clone(), CP, Some("zerofeeextra2"), &sorted(extra1));
    w.create_pool(&b, &["uusdc", "uusdt"], &[6, 6], f0.clone(), CP, Some("zerofee"), &ok3);
    // the creation fee changes its denom only (same amount): later creations owe the new coin
    {
        let before = w.s.q_pm_config().pool_creation_fee;
        w.update_config(&o, None, Some(coin(1000, "uusdt")), &[], "creation fee 1000 uusdt");
        let old_funds = w.creation_funds();
        w.update_config(&o, None, Some(coin(1000, "uusdc")), &[], "creation fee: same amount, other denom");
        let new_funds = w.creation_funds();
        w.create_pool(&b, &["uusdc", "uweth"], &[6, 18], f0.clone(), CP, Some("oldcoin"), &old_funds);
        w.create_pool(&b, &["uusdc", "uweth"], &[6, 18], f0.clone(), CP, Some("newcoin"), &new_funds);
        w.update_config(&o, None, Some(before), &[], "creation fee back");
    }
    // "p.1" names the generated pool, not the pool somebody called p.1 (stored as o.p.1)
    w.update_config(&o, Some(pm::FeatureToggle { pool_identifier: "p.1".into(), swaps_enabled: Some(false), deposits_enabled: None, withdrawals_enabled: None }), None, &[], "toggle p.1");
    w.update_config(&o, Some(pm::FeatureToggle { pool_identifier: "o.p.1".into(), swaps_enabled: None, deposits_enabled: Some(false), withdrawals_enabled: None }), None, &[], "toggle o.p.1");
    w.update_config(&o, Some(pm::FeatureToggle { pool_identifier: "1".into(), swaps_enabled: Some(false), deposits_enabled: None, withdrawals_enabled: None }), None, &[], "toggle 1 (no such pool: o.1 is another name)");
    // a waived creation fee in the denom the token factory charges in, while the contract holds that denom as a reserve:
    // the token-factory fee is still due in full
    if let Some(tf) = w.s.cfg.tf_fee.first().cloned() {
        w.create_pool(&b, &[tf.denom.as_str(), "uusd"], &[6, 6], f0.clone(), CP, Some("holdstf"), &ok3);
        w.provide(&b, "o.holdstf", &sorted(vec![coin(50_000_000, tf.denom.clone()), coin(50_000_000, "uusd")]), None, None, None, None, None);
        w.update_config(&o, None, Some(coin(0, tf.denom.clone())), &[], "creation fee -> 0 in the token-factory fee denom");
        let due = w.creation_funds();
        w.create_pool(&b, &["uusdc", "uweth"], &[6, 18], f0.clone(), CP, Some("nofunds"), &[]);
        let mut short = due.clone();
        short[0].amount -= Uint128::one();
        w.create_pool(&b, &["uusdc", "uweth"], &[6, 18], f0.clone(), CP, Some("oneshort"), &short);
        w.create_pool(&b, &["uusdc", "uweth"], &[6, 18], f0.clone(), CP, Some("paid"), &due);
    }
    w.decimals();
    w.pages(4);
    w.pages(100);
}

pub struct Setup {
    pub cp1: &'static str,
    pub cp2: &'static str,
    pub cp0: &'static str,
    pub ss1: &'static str,
    pub ss3: &'static str,
}
/// a world with five funded pools sharing denoms
pub fn std_world<'a>(t: &'a mut Tracer, name: &str, ss_amp: u64, ss_decs: [u8; 2]) -> PW<'a> {
    let mut w = PW::new(SysCfg::default(), t, name);
    let o = w.user(0);
    let ok = w.creation_funds();
    w.create_pool(&o, &["uusdc", "uusdt"], &[6, 6], fees(100, 200, 50, &[30, 170, 45]), CP, Some("cp1"), &ok);
    w.create_pool(&o, &["uusdt", "uweth"], &[6, 18], fees(300, 0, 0, &[]), CP, Some("cp2"), &ok);
    w.create_pool(&o, &["uom", "uusd"], &[6, 6], fees(0, 0, 0, &[]), CP, Some("cp0"), &ok);
    w.create_pool(&o, &["uusd", "uusdc"], &ss_decs, fees(30, 40, 10, &[5, 5]), SS(ss_amp), Some("ss1"), &ok);
    w.create_pool(&o, &["uusd", "uusdt", "uweth"], &[6, 6, 18], fees(0, 0, 0, &[]), SS(85), Some("ss3"), &ok);
    let lp = w.user(1);
    let d = |x: u8| 10u128.pow(x as u32);
    w.provide(&lp, "o.cp1", &sorted(vec![coin(5_000_000 * d(6), "uusdc"), coin(7_000_000 * d(6) + 13, "uusdt")]), None, None, None, None, None);
    w.provide(&lp, "o.cp2", &sorted(vec![coin(3_000_000 * d(6), "uusdt"), coin(1_000 * d(18) + 7, "uweth")]), None, None, None, None, None);
    w.provide(&lp, "o.cp0", &sorted(vec![coin(1_000_003, "uom"), coin(2_000_001, "uusd")]), None, None, None, None, None);
    w.provide(&lp, "o.ss1", &sorted(vec![coin(1_000_000 * d(ss_decs[0]), "uusd"), coin(1_100_000 * d(ss_decs[1]), "uusdc")]), None, None, None, None, None);
    w.provide(&lp, "o.ss3", &sorted(vec![coin(900_000 * d(6), "uusd"), coin(1_000_000 * d(6), "uusdt"), coin(1_050_000 * d(18), "uweth")]), None, None, None, None, None);
    w
}

/// C04/C12/C03: swaps with receivers, dust, large offers, routes sharing denoms and revisiting pools
fn h2(p: &str, i: &str, o: &str) -> (String, String, String) {
    (p.to_string(), i.to_string(), o.to_string())
}
fn sc_swaps_and_routes(t: &mut Tracer) {
    let mut w = std_world(t, "swaps_and_routes", 100, [6, 6]);
    let (tr, rc) = (w.user(2), w.user(3));
    let half = Some(Decimal::percent(50));
    for amt in [1u128, 2, 3, 7, 999, 1_000_000, 123_456_789_012, 9_000_000_000_000] {
        w.swap(&tr, "o.cp1", &[coin(amt, "uusdc")], "uusdt", None, half, None);
        w.swap(&tr, "o.cp1", &[coin(amt, "uusdt")], "uusdc", None, half, Some(&rc));
        w.swap(&tr, "o.cp0", &[coin(amt.min(3_000_000), "uom")], "uusd", None, half, None);
        w.swap(&tr, "o.ss1", &[coin(amt.min(400_000_000_000), "uusd")], "uusdc", None, half, None);
        w.swap(&tr, "o.ss1", &[coin(amt.min(400_000_000_000), "uusdc")], "uusd", None, half, Some(&rc));
        w.swap(&tr, "o.ss3", &[coin(amt.min(400_000_000_000), "uusdt")], "uweth", None, half, None);
        w.swap(&tr, "o.ss3", &[coin(amt, "uweth")], "uusd", None, half, None);
    }
    // dust trades on the fee-less pool with every tolerance: a one-unit loss on ten units is 10 %
    for amt in [2u128, 3, 5, 10, 11, 100, 101, 1000, 1001] {
        for tol in [None, Some(Decimal::zero()), Some(Decimal::permille(1)), Some(Decimal::percent(1)), Some(Decimal::percent(10))] {
            w.swap(&tr, "o.cp0", &[coin(amt, "uusd")], "uom", None, tol, None);
        }
    }
    // offers too small to buy one unit, accepted because the belief price says so: the offer still belongs to the reserve
    {
        let lpu = w.user(1);
        let ok = w.creation_funds();
        let o = w.user(0);
        w.create_pool(&o, &["uusdc", "uweth"], &[6, 6], fees(100, 100, 0, &[]), CP, Some("skew"), &ok);
        w.provide(&lpu, "o.skew", &sorted(vec![coin(1_000_000, "uusdc"), coin(1_000, "uweth")]), None, None, None, None, None);
        for amt in [900u128, 900, 999, 1, 1001] {
            w.swap(&tr, "o.skew", &[coin(amt, "uusdc")], "uweth", Some(Decimal::from_ratio(10_000u128, 1u128)), half, None);
        }
        w.swap(&tr, "o.skew", &[coin(900, "uusdc")], "uweth", None, half, None);
        w.route(&tr, &[h2("o.skew", "uusdc", "uweth")], &[coin(900, "uusdc")], None, None, half);
    }
    // two pools that registered their shared denom with different decimals (uusdt: 6 in cp1, 18 in dd): amounts are raw
    // units, so a route across them is quoted as it is executed
    {
        let lpu = w.user(1);
        let ok = w.creation_funds();
        let o = w.user(0);
        w.create_pool(&o, &["uusdt", "uusd"], &[18, 6], fees(100, 0, 0, &[]), CP, Some("dd"), &ok);
        w.provide(&lpu, "o.dd", &sorted(vec![coin(5_000_000_000, "uusdt"), coin(4_000_000_000, "uusd")]), None, None, None, None, None);
        w.create_pool(&o, &["uusdt", "uusd"], &[18, 6], fees(0, 30, 0, &[]), SS(85), Some("dds"), &ok);
        w.provide(&lpu, "o.dds", &sorted(vec![coin(5_000_000_000_000_000_000_000, "uusdt"), coin(4_000_000_000, "uusd")]), None, None, None, None, None);
        for amt in [1_000u128, 1_000_000, 77_000_000] {
            w.route(&tr, &[h2("o.cp1", "uusdc", "uusdt"), h2("o.dd", "uusdt", "uusd")], &[coin(amt, "uusdc")], None, None, half);
            w.route(&tr, &[h2("o.dd", "uusd", "uusdt"), h2("o.cp1", "uusdt", "uusdc")], &[coin(amt, "uusd")], None, None, half);
            w.route(&tr, &[h2("o.dds", "uusd", "uusdt"), h2("o.dd", "uusdt", "uusd")], &[coin(amt, "uusd")], None, None, half);
        }
    }
    // invalid swaps
    w.swap(&tr, "o.cp1", &[coin(10, "uusdc")], "uusdc", None, None, None);
    w.swap(&tr, "o.cp1", &[coin(10, "uweth")], "uusdt", None, None, None);
    w.swap(&tr, "o.cp1", &[coin(10, "uusdc")], "uweth", None, None, None);
    w.swap(&tr, "o.cp1", &[], "uusdt", None, None, None);
    w.swap(&tr, "o.cp1", &sorted(vec![coin(10, "uusdc"), coin(10, "uusdt")]), "uusdt", None, None, None);
    w.swap(&tr, "o.nopool", &[coin(10, "uusdc")], "uusdt", None, None, None);
    // routes: usdc -> usdt -> weth (two pools sharing uusdt), three hops, revisiting a pool, to a receiver
    let h = |p: &str, i: &str, o: &str| (p.to_string(), i.to_string(), o.to_string());
    let r2 = vec![h("o.cp1", "uusdc", "uusdt"), h("o.cp2", "uusdt", "uweth")];
    let r3 = vec![h("o.ss1", "uusd", "uusdc"), h("o.cp1", "uusdc", "uusdt"), h("o.ss3", "uusdt", "uweth")];
    let rr = vec![h("o.cp1", "uusdc", "uusdt"), h("o.cp1", "uusdt", "uusdc"), h("o.cp1", "uusdc", "uusdt")];
    let back = vec![h("o.cp0", "uom", "uusd"), h("o.cp0", "uusd", "uom")];
    for amt in [5u128, 1_000, 1_000_000, 50_000_000_000] {
        w.route(&tr, &r2, &[coin(amt, "uusdc")], None, None, half);
        w.route(&tr, &r3, &[coin(amt, "uusd")], Some(1), Some(&rc), half);
        w.route(&tr, &rr, &[coin(amt, "uusdc")], None, None, half);
        w.route(&tr, &back, &[coin(amt.min(100_000), "uom")], None, None, half);
    }
    // half of an earlier single-asset deposit, offered as an ordinary swap on the same pool by somebody else: an ordinary swap
    {
        let dep = w.user(1);
        w.provide(&dep, "o.cp1", &[coin(20_000, "uusdc")], None, None, None, None, half);
        w.swap(&tr, "o.cp1", &[coin(10_000, "uusdc")], "uusdt", None, half, None);
        w.provide(&dep, "o.ss1", &[coin(20_001, "uusd")], None, None, None, None, half);
        w.swap(&tr, "o.ss1", &[coin(10_000, "uusd")], "uusdc", None, half, None);
    }
    // the owner points the fee collector at an account that trades: its own swaps, with and without another receiver, and its
    // routes pay the protocol fee to it like anybody else's
    {
        let o = w.user(0);
        w.next_fee_collector = Some(tr.clone());
        w.update_config(&o, None, None, &[], "fee collector := the trader");
        w.swap(&tr, "o.cp1", &[coin(1_000_000, "uusdc")], "uusdt", None, half, None);
        w.swap(&tr, "o.cp1", &[coin(1_000_000, "uusdt")], "uusdc", None, half, Some(&rc));
        w.route(&tr, &r2, &[coin(1_000_000, "uusdc")], None, Some(&rc), half);
        w.swap(&rc, "o.cp1", &[coin(1_000_000, "uusdc")], "uusdt", None, half, None);
        let fc = w.s.fee.clone();
        w.next_fee_collector = Some(fc);
        w.update_config(&o, None, None, &[], "fee collector back");
    }
    // a pool visited twice in the same direction with another pool in between (priced on its current reserves both times),
    // on a constant-product and on a stableswap pool
    for amt in [1_000_000u128, 50_000_000_000] {
        w.route(&tr, &[h("o.cp1", "uusdc", "uusdt"), h("o.ss3", "uusdt", "uusd"), h("o.ss1", "uusd", "uusdc"), h("o.cp1", "uusdc", "uusdt")], &[coin(amt, "uusdc")], None, None, half);
        w.route(&tr, &[h("o.ss3", "uusd", "uusdt"), h("o.cp1", "uusdt", "uusdc"), h("o.ss1", "uusdc", "uusd"), h("o.ss3", "uusd", "uusdt")], &[coin(amt, "uusd")], None, None, half);
        w.route(&tr, &[h("o.ss3", "uusd", "uusdt"), h("o.ss3", "uusdt", "uweth")], &[coin(amt, "uusd")], None, None, half);
    }
    // out through two pools and back through the same two: every hop's loss is judged against the tolerance on the reserves the
    // hop meets (a ladder of tolerances around the last hop's price impact)
    for pct in [2u64, 4, 6, 8, 10, 12, 15, 20] {
        w.route(&tr, &[h("o.cp0", "uom", "uusd"), h("o.ss1", "uusd", "uusdc"), h("o.ss1", "uusdc", "uusd"), h("o.cp0", "uusd", "uom")],
                &[coin(150_000, "uom")], None, None, Some(Decimal::percent(pct)));
    }
    // funds in a denom other than the first hop's declared input, which the first pool holds as well: refused
    w.route(&tr, &[h("o.ss3", "uusd", "uweth")], &[coin(1_000_000, "uusdt")], None, None, half);
    w.route(&tr, &[h("o.ss3", "uusd", "uweth"), h("o.cp2", "uweth", "uusdt")], &[coin(1_000_000, "uusdt")], None, None, half);
    // minimum_receive exactly met / one more than the quote
    let q: Result<pm::SimulateSwapOperationsResponse, String> = w.s.query(&w.s.pool, &pm::QueryMsg::SimulateSwapOperations {
        offer_amount: Uint128::new(1_000_000),
        operations: r2.iter().map(|(p, i, o)| pm::SwapOperation::MantraSwap { token_in_denom: i.clone(), token_out_denom: o.clone(), pool_identifier: p.clone() }).collect() });
    if let Ok(q) = q {
        w.route(&tr, &r2, &[coin(1_000_000, "uusdc")], Some(q.return_amount.u128() + 1), None, half);
        w.route(&tr, &r2, &[coin(1_000_000, "uusdc")], Some(q.return_amount.u128()), None, half);
    }
    // broken routes: a hop whose input and output denom coincide, on a stableswap and on a constant-product pool
    w.route(&tr, &[h("o.ss1", "uusd", "uusd")], &[coin(1000, "uusd")], None, None, half);
    w.route(&tr, &[h("o.ss3", "uusdt", "uusdt"), h("o.cp1", "uusdt", "uusdc")], &[coin(1000, "uusdt")], None, None, half);
    w.route(&tr, &[h("o.cp1", "uusdc", "uusdt"), h("o.cp1", "uusdt", "uusdt")], &[coin(1000, "uusdc")], None, None, half);
    w.route(&tr, &[h("o.cp1", "uusdc", "uusdt"), h("o.cp2", "uweth", "uusdt")], &[coin(1000, "uusdc")], None, None, half);
    // a mis-stated input denom at the second, the third (the pool holds the stated and the real denom) and the fourth boundary
    w.route(&tr, &[h("o.cp1", "uusdc", "uusdt"), h("o.cp2", "uusdt", "uweth"), h("o.ss3", "uusdt", "uusd")], &[coin(1_000_000, "uusdc")], None, None, half);
    w.route(&tr, &[h("o.cp1", "uusdc", "uusdt"), h("o.cp2", "uusdt", "uweth"), h("o.ss3", "uweth", "uusd"), h("o.ss1", "uusdc", "uusd")], &[coin(1_000_000, "uusdc")], None, None, half);
    w.route(&tr, &[h("o.cp1", "uusdc", "uusdt"), h("o.cp2", "uusdt", "uweth"), h("o.ss3", "uweth", "uusdt"), h("o.ss3", "uusdt", "uusd"), h("o.ss3", "uusdt", "uweth")], &[coin(1_000_000, "uusdc")], None, None, half);
    w.route(&tr, &[], &[coin(1000, "uusdc")], None, None, half);
    w.route(&tr, &r2, &[coin(1000, "uusdt")], None, None, half);
    w.route(&tr, &r2, &[], None, None, half);
    // reverse simulations
    for ask in [1u128, 17, 1000, 1_000_000, 999_999_999, 3_000_000_000_000] {
        w.rsim("o.cp1", &coin(ask, "uusdt"), "uusdc");
        w.rsim("o.cp1", &coin(ask, "uusdc"), "uusdt");
        w.rsim("o.cp0", &coin(ask.min(1_500_000), "uusd"), "uom");
        w.rsim("o.ss1", &coin(ask.min(500_000_000_000), "uusdc"), "uusd");
    }
    // reverse route quotes: one to five hops over both pool types, an unreachable amount, a broken and an empty route
    for ask in [1u128, 1000, 1_000_000, 250_000_000_000] {
        w.rroute(ask, &r2[..1]);
        w.rroute(ask, &r2);
        w.rroute(ask.min(1_000_000_000), &r3);
    }
    w.rroute(1_000_000, &[h("o.cp1", "uusdc", "uusdt"), h("o.cp2", "uusdt", "uweth"), h("o.ss3", "uweth", "uusd"), h("o.ss1", "uusd", "uusdc"), h("o.cp0", "uusd", "uom")]);
    // two hops paying out the same denom: their fees are summed into one entry
    w.rroute(1_000_000, &[h("o.cp1", "uusdc", "uusdt"), h("o.cp2", "uusdt", "uweth"), h("o.ss3", "uweth", "uusdt")]);
    w.rroute(u128::MAX / 2, &r2);
    w.rroute(1000, &[h("o.cp1", "uusdc", "uusdt"), h("o.nope", "uusdt", "uweth")]);
    w.rroute(1000, &[h("o.cp1", "uusdc", "uusdt"), h("o.cp2", "uusdc", "uweth")]);
    w.rroute(1000, &[]);
    w.decimals();
    w.pages(1);
    w.pages(2);
    w.pages(3);
    w.donate(&tr, coin(12345, "uusdt"));
    w.donate(&tr, coin(1, "uweth"));
    w.swap(&tr, "o.cp1", &[coin(777_777, "uusdc")], "uusdt", None, half, None);
}

/// C02/C14: deposits of every shape, withdrawals (dust, large), single-asset deposits, locked deposits
fn sc_liquidity(t: &mut Tracer, ss_decs: [u8; 2], name: &str) {
    let mut w = std_world(t, name, 100, ss_decs);
    let (a, b, c) = (w.user(2), w.user(3), w.user(4));
    let lp = w.user(1);
    let d = |x: u8| 10u128.pow(x as u32);
    // a receiver that is not an address: the deposit goes to the sender, whatever its shape
    for shape in 0..4 {
        w.raw_receiver = Some("not-an-address".into());
        match shape {
            0 => { w.provide(&a, "o.cp1", &sorted(vec![coin(5_000 * d(6), "uusdc"), coin(7_000 * d(6), "uusdt")]), None, None, None, None, None); }
            1 => { w.provide(&a, "o.cp1", &[coin(10_001, "uusdc")], None, None, None, None, Some(Decimal::percent(50))); }
            2 => { w.provide(&a, "o.cp1", &[coin(10_001, "uusdc")], None, Some(DAY), None, None, Some(Decimal::percent(50))); }
            _ => { w.provide(&a, "o.ss1", &[coin(10_001, "uusd")], None, None, None, None, Some(Decimal::percent(50))); }
        }
    }
    // tokens the contract holds outside this pool's books (a donation, the odd unit of an earlier deposit, another pool's
    // reserve of the same denom) do not stand in the way of a single-asset deposit
    {
        w.donate(&b, coin(1, "uusdt"));
        w.donate(&b, coin(12_345, "uusdc"));
        for amt in [10_001u128, 10_001, 20_000] {
            w.expect_ok = true;
            w.provide(&a, "o.cp1", &[coin(amt, "uusdc")], None, None, None, None, Some(Decimal::percent(50)));
            w.expect_ok = true;
            w.provide(&a, "o.cp1", &[coin(amt, "uusdt")], None, None, None, None, Some(Decimal::percent(50)));
        }
        w.expect_ok = true;
        w.provide(&a, "o.ss1", &[coin(10_001, "uusdc")], None, None, None, None, Some(Decimal::percent(50)));
    }
    // every provider leaves: the supply is exactly the locked minimum; the next deposit is an ordinary, proportional one
    for (kind, id) in [(CP, "left"), (SS(85), "lefts")] {
        let o = w.user(0);
        let ok = w.creation_funds();
        w.create_pool(&o, &["uusdc", "uusdt"], &[6, 6], fees(100, 100, 0, &[]), kind, Some(id), &ok);
        let pid = format!("o.{id}");
        w.provide(&a, &pid, &sorted(vec![coin(1_000_000, "uusdc"), coin(1_000_000, "uusdt")]), None, None, None, None, None);
        let lpd = w.s.lp_denom(&pid);
        let all = w.s.bal(&a, &lpd);
        w.withdraw(&a, &pid, &[coin(all, lpd.clone())]);
        w.provide(&b, &pid, &sorted(vec![coin(2_000_000, "uusdc"), coin(2_000_000, "uusdt")]), None, None, None, None, None);
        w.provide(&b, &pid, &[coin(10_001, "uusdc")], None, None, None, None, Some(Decimal::percent(50)));
        let allb = w.s.bal(&b, &lpd);
        w.withdraw(&b, &pid, &[coin(allb, lpd.clone())]);
        w.provide(&c, &pid, &[coin(10_001, "uusdc")], None, None, None, None, Some(Decimal::percent(50)));
        w.swap(&c, &pid, &[coin(100, "uusdc")], "uusdt", None, Some(Decimal::percent(50)), None);
    }
    // balanced, skewed, with tolerance
    w.provide(&a, "o.cp1", &sorted(vec![coin(5_000 * d(6), "uusdc"), coin(7_000 * d(6), "uusdt")]), None, None, None, None, None);
    w.provide(&a, "o.cp1", &sorted(vec![coin(5_000 * d(6), "uusdc"), coin(9_000 * d(6), "uusdt")]), None, None, None, None, None);
    w.provide(&a, "o.cp1", &sorted(vec![coin(5_000 * d(6), "uusdc"), coin(9_000 * d(6), "uusdt")]), None, None, None, Some(Decimal::percent(1)), None);
    w.provide(&a, "o.cp1", &sorted(vec![coin(5_000 * d(6), "uusdc"), coin(9_000 * d(6), "uusdt")]), None, None, None, Some(Decimal::percent(60)), None);
    w.provide(&a, "o.cp1", &sorted(vec![coin(5_000 * d(6), "uusdc"), coin(7_000 * d(6), "uusdt")]), Some(&b), None, None, Some(Decimal::percent(1)), None);
    w.provide(&a, "o.cp1", &sorted(vec![coin(1, "uusdc"), coin(1, "uusdt")]), None, None, None, None, None);
    w.provide(&a, "o.cp1", &sorted(vec![coin(5_000, "uusdc"), coin(7_000, "uweth")]), None, None, None, None, None); // wrong asset
    w.provide(&a, "o.cp1", &[], None, None, None, None, None);
    w.provide(&a, "o.ss1", &sorted(vec![coin(10_000 * d(ss_decs[0]), "uusd"), coin(11_000 * d(ss_decs[1]), "uusdc")]), None, None, None, None, None);
    w.provide(&a, "o.ss1", &sorted(vec![coin(10_000 * d(ss_decs[0]), "uusd"), coin(1_000 * d(ss_decs[1]), "uusdc")]), None, None, None, None, None);
    w.provide(&a, "o.ss1", &sorted(vec![coin(10_000 * d(ss_decs[0]), "uusd"), coin(11_000 * d(ss_decs[1]), "uusdc")]), None, None, None, Some(Decimal::percent(5)), None);
    w.provide(&a, "o.ss3", &sorted(vec![coin(9_000 * d(6), "uusd"), coin(10_000 * d(6), "uusdt"), coin(10_500 * d(18), "uweth")]), None, None, None, None, None);
    w.provide(&a, "o.ss3", &sorted(vec![coin(9_000 * d(6), "uusd"), coin(10_000 * d(6), "uusdt")]), None, None, None, None, None); // partial asset set
    w.provide(&a, "o.ss3", &[coin(9_000 * d(6), "uusd")], None, None, None, None, None); // single asset on a 3-pool: refused
    // single-asset deposits (odd / even), with receiver, with lock, with foreign receiver + lock
    let half = Some(Decimal::percent(50));
    for amt in [10_000u128, 10_001, 999_999, 123_456_789] {
        w.provide(&a, "o.cp1", &[coin(amt, "uusdc")], None, None, None, None, half);
        w.provide(&a, "o.cp1", &[coin(amt, "uusdt")], Some(&b), None, None, None, half);
        w.provide(&a, "o.ss1", &[coin(amt * d(ss_decs[0]) / d(6), "uusd")], None, None, None, None, half);
        w.provide(&a, "o.cp0", &[coin(amt.min(50_000), "uom")], None, None, None, None, half);
    }
    w.provide(&a, "o.cp1", &[coin(2_000_001, "uusdc")], None, Some(DAY), None, None, half);
    w.provide(&a, "o.cp1", &[coin(2_000_000, "uusdc")], None, Some(DAY), Some("mine"), None, half);
    w.provide(&a, "o.cp1", &[coin(2_000_000, "uusdc")], None, Some(DAY), Some("mine"), None, half); // "mine" again: u-mine exists, refused
    w.provide(&a, "o.cp1", &[coin(2_000_000, "uusdc")], None, Some(DAY), Some("u-mine"), None, half); // expands u-mine through the pool manager
    w.provide(&a, "o.cp1", &sorted(vec![coin(5_000 * d(6), "uusdc"), coin(7_000 * d(6), "uusdt")]), None, Some(DAY), Some("u-mine"), None, None); // two-asset expansion
    w.provide(&c, "o.cp1", &[coin(2_000_000, "uusdc")], None, Some(DAY), Some("u-mine"), None, half); // someone else's position: refused
    w.provide(&c, "o.cp1", &[coin(2_000_000, "uusdc")], Some(&a), Some(DAY), None, None, half); // lock for someone else: refused
    w.provide(&c, "o.cp1", &sorted(vec![coin(5_000 * d(6), "uusdc"), coin(7_000 * d(6), "uusdt")]), Some(&a), Some(DAY), None, None, None); // two-asset lock for someone else: refused
    w.provide(&c, "o.cp1", &sorted(vec![coin(5_000 * d(6), "uusdc"), coin(7_000 * d(6), "uusdt")]), None, Some(7 * DAY), Some("cpos"), None, None);
    w.provide(&c, "o.cp1", &sorted(vec![coin(5_000 * d(6), "uusdc"), coin(7_000 * d(6), "uusdt")]), None, Some(7 * DAY), Some("u-mine"), None, None); // foreign id
    w.provide(&c, "o.cp1", &[coin(100_000_000_000_000, "uusdc")], None, None, None, None, Some(Decimal::percent(1))); // internal swap exceeds slippage: refused
    w.provide(&c, "o.cp1", &[coin(1, "uusdc")], None, None, None, None, half); // half = 0
    // topping up a position that was closed in the meantime, through the pool manager: refused
    {
        let fa = w.s.farm.clone();
        let lpd1 = w.s.lp_denom("o.cp1");
        w.provide(&c, "o.cp1", &sorted(vec![coin(5_000 * d(6), "uusdc"), coin(7_000 * d(6), "uusdt")]), None, Some(DAY), Some("tobeclosed"), None, None);
        let r = w.s.exec(&c, &fa, &mantra_dex_std::farm_manager::ExecuteMsg::ManagePosition { action: mantra_dex_std::farm_manager::PositionAction::Close { identifier: "u-tobeclosed".into(), lp_asset: None } }, &[]);
        let post = w.s.snapshot(w.mask);
        w.t.emit("fm_direct", json!({"ok": r.is_ok(), "post": post, "note": "closed u-tobeclosed in the farm manager"}));
        let _ = lpd1;
        w.provide(&c, "o.cp1", &sorted(vec![coin(5_000 * d(6), "uusdc"), coin(7_000 * d(6), "uusdt")]), None, Some(DAY), Some("u-tobeclosed"), None, None);
        w.provide(&c, "o.cp1", &[coin(2_000_000, "uusdc")], None, Some(DAY), Some("u-tobeclosed"), None, half);
    }
    // single-asset deposits large enough to move the price, with a liquidity tolerance tighter than the swap tolerance
    for (liq, sw) in [(1u64, 20u64), (5, 30), (20, 30), (1, 1)] {
        w.provide(&c, "o.cp1", &[coin(1_500_000 * d(6), "uusdc")], None, None, None, Some(Decimal::percent(liq)), Some(Decimal::percent(sw)));
    }
    // dust legs on the 6/18 pool: one leg is worth less than one LP unit
    w.provide(&a, "o.cp2", &sorted(vec![coin(3_000 * d(6), "uusdt"), coin(1, "uweth")]), None, None, None, None, None);
    w.provide(&a, "o.cp2", &sorted(vec![coin(1, "uusdt"), coin(1_000_000_000_000_000_000, "uweth")]), None, None, None, None, None);
    w.provide(&a, "o.cp2", &sorted(vec![coin(1_000_000 * d(6), "uusdt"), coin(17_000, "uweth")]), None, None, None, None, None);
    // locking the LP of one pool into a position that holds the LP of another pool: refused
    w.provide(&a, "o.cp2", &sorted(vec![coin(3_000 * d(6), "uusdt"), coin(1_000_000_000_000_000_000, "uweth")]), None, Some(DAY), Some("u-mine"), None, None);
    w.provide(&a, "o.cp2", &[coin(3_000 * d(6), "uusdt")], None, Some(DAY), Some("u-mine"), None, half);
    // empty pool: single-asset refused
    let ok = w.creation_funds();
    let o = w.user(0);
    w.create_pool(&o, &["uusdc", "uweth"], &[6, 18], fees(100, 100, 0, &[]), CP, Some("empty"), &ok);
    w.provide(&c, "o.empty", &[coin(1_000_000, "uusdc")], None, None, None, None, half);
    w.provide(&c, "o.empty", &sorted(vec![coin(1000, "uusdc"), coin(1000, "uweth")]), None, None, None, None, None); // sqrt = 1000: not above minimum
    w.provide(&c, "o.empty", &sorted(vec![coin(1001, "uusdc"), coin(1001, "uweth")]), None, None, None, None, None);
    // withdrawals: dust, medium, everything the LP has; wrong denom; two coins
    let lp1 = w.s.lp_denom("o.cp1");
    let lpss = w.s.lp_denom("o.ss1");
    let lp2 = w.s.lp_denom("o.cp2");
    for burn in [1u128, 1000, 5_000_000, 123_456_789_012] {
        w.withdraw(&lp, "o.cp1", &[coin(burn, lp1.clone())]);
        w.withdraw(&lp, "o.cp2", &[coin(burn, lp2.clone())]);
        w.withdraw(&lp, "o.ss1", &[coin(burn, lpss.clone())]);
    }
    w.withdraw(&lp, "o.cp1", &[coin(5, lp2.clone())]);
    w.withdraw(&lp, "o.cp1", &[]);
    w.withdraw(&lp, "o.cp1", &sorted(vec![coin(5, lp1.clone()), coin(5, "uusdc")]));
    let all = w.s.bal(&b, &lp1);
    w.withdraw(&b, "o.cp1", &[coin(all, lp1.clone())]);
    let all = w.s.bal(&lp, &lp2);
    w.withdraw(&lp, "o.cp2", &[coin(all, lp2.clone())]); // the whole circulating supply: only the locked minimum remains
    w.swap(&a, "o.cp2", &[coin(1000, "uusdt")], "uweth", None, half, None);
    // the limit of ten open positions holds for positions the pool manager opens for a user: ten on this pool's LP (a01..a10),
    // then two on another pool's LP (z1, z2) that sort after them; one of the two is closed directly afterwards
    {
        let many = w.user(3);
        let fa = w.s.farm.clone();
        for k in 1..=10 {
            w.provide(&many, "o.cp1", &sorted(vec![coin(50 * d(6), "uusdc"), coin(70 * d(6), "uusdt")]), None, Some(DAY), Some(&format!("a{k:02}")), None, None);
        }
        for id in ["z1", "z2"] {
            w.provide(&many, "o.cp0", &sorted(vec![coin(1_000_000, "uom"), coin(2_000_000, "uusd")]), None, Some(DAY), Some(id), None, None);
        }
        let r = w.s.exec(&many, &fa, &mantra_dex_std::farm_manager::ExecuteMsg::ManagePosition { action: mantra_dex_std::farm_manager::PositionAction::Close { identifier: "u-z1".into(), lp_asset: None } }, &[]);
        let post = w.s.snapshot(w.mask);
        w.t.emit("fm_direct", json!({"ok": r.is_ok(), "post": post, "note": "closed u-z1 in the farm manager"}));
        w.provide(&many, "o.cp1", &sorted(vec![coin(50 * d(6), "uusdc"), coin(70 * d(6), "uusdt")]), None, Some(DAY), Some("u-a01"), None, None);
    }
}

/// pools created with denoms in non-alphabetical order: deposits with a tolerance, then swaps
fn sc_unsorted_pools(t: &mut Tracer) {
    let mut w = PW::new(SysCfg::default(), t, "unsorted_pools");
    let (o, lp, a) = (w.user(0), w.user(1), w.user(2));
    let ok = w.creation_funds();
    let half = Some(Decimal::percent(50));
    let d = |x: u8| 10u128.pow(x as u32);
    w.create_pool(&o, &["uweth", "uusdc"], &[18, 6], fees(30, 40, 10, &[]), SS(100), Some("zs"), &ok);
    w.create_pool(&o, &["uusdt", "uusdc"], &[6, 6], fees(100, 200, 0, &[]), CP, Some("zc"), &ok);
    w.create_pool(&o, &["uweth", "uusd", "uom"], &[18, 6, 8], fees(0, 0, 0, &[]), SS(10), Some("z3"), &ok);
    w.provide(&lp, "o.zs", &sorted(vec![coin(300_000 * d(18), "uweth"), coin(100_000 * d(6), "uusdc")]), None, None, None, None, None);
    w.provide(&lp, "o.zc", &sorted(vec![coin(3_000_000 * d(6), "uusdt"), coin(5_000_000 * d(6), "uusdc")]), None, None, None, None, None);
    w.provide(&lp, "o.z3", &sorted(vec![coin(1_000_000 * d(18), "uweth"), coin(1_000_000 * d(6), "uusd"), coin(1_000_000 * d(8), "uom")]), None, None, None, None, None);
    for (pool, x, y) in [("o.zs", "uweth", "uusdc"), ("o.zc", "uusdt", "uusdc")] {
        w.swap(&a, pool, &[coin(1_000 * d(if x == "uweth" { 18 } else { 6 }), x)], y, None, half, None);
        w.swap(&a, pool, &[coin(1_000 * d(6), y)], x, None, half, None);
    }
    // deposits with a tolerance: proportional on the constant-product pool, dust with tolerance 100% on the stableswap pools
    w.provide(&a, "o.zc", &sorted(vec![coin(3_000 * d(6), "uusdt"), coin(5_000 * d(6), "uusdc")]), None, None, None, Some(Decimal::percent(10)), None);
    w.provide(&a, "o.zs", &sorted(vec![coin(3, "uweth"), coin(1, "uusdc")]), None, None, None, Some(Decimal::percent(100)), None);
    w.provide(&a, "o.z3", &sorted(vec![coin(1, "uweth"), coin(1, "uusd"), coin(1, "uom")]), None, None, None, Some(Decimal::percent(100)), None);
    // afterwards: swaps, deposits and withdrawals must behave as before
    for (pool, x, y) in [("o.zs", "uweth", "uusdc"), ("o.zc", "uusdt", "uusdc"), ("o.z3", "uweth", "uom")] {
        let dx = if x == "uweth" { 18 } else { 6 };
        w.swap(&a, pool, &[coin(1_000 * d(dx), x)], y, None, half, None);
        w.swap(&a, pool, &[coin(777 * d(if y == "uom" { 8 } else { 6 }), y)], x, None, half, None);
    }
    w.provide(&a, "o.zs", &sorted(vec![coin(100_000 * d(18), "uweth"), coin(100_000 * d(6), "uusdc")]), None, None, None, None, None);
    w.provide(&a, "o.zs", &[coin(5_000 * d(6), "uusdc")], None, None, None, None, half);
    let lpd = w.s.lp_denom("o.zs");
    let have = w.s.bal(&a, &lpd);
    if have > 0 { w.withdraw(&a, "o.zs", &[coin(have / 2, lpd)]); }
    w.rsim("o.zc", &coin(1_000_000, "uusdc"), "uusdt");
    w.rroute(1_000_000, &[("o.zs".into(), "uweth".into(), "uusdc".into()), ("o.zc".into(), "uusdc".into(), "uusdt".into())]);
    w.decimals();
}

/// C12 "routes of any length": a simple route over 101 distinct pools sharing two denoms
fn sc_long_route(t: &mut Tracer) {
    let mut w = PW::new(SysCfg::default(), t, "long_route");
    // only the pools, balances and supplies are needed here
    w.mask = Mask { pools: true, farms: true, epoch: true, owners: false };
    let (o, lp, a) = (w.user(0), w.user(1), w.user(2));
    let ok = w.creation_funds();
    let n = 101;
    let mut hops = vec![];
    for k in 0..n {
        let id = format!("r{k}");
        w.s.exec_pm(&o, &pm::ExecuteMsg::CreatePool { asset_denoms: vec!["uusdc".into(), "uusdt".into()], asset_decimals: vec![6, 6],
            pool_fees: fees(10, 20, 0, &[]), pool_type: CP, pool_identifier: Some(id.clone()) }, &ok).unwrap();
        w.s.exec_pm(&lp, &pm::ExecuteMsg::ProvideLiquidity { liquidity_max_slippage: None, swap_max_slippage: None, receiver: None,
            pool_identifier: format!("o.{id}"), unlocking_duration: None, lock_position_identifier: None },
            &sorted(vec![coin(1_000_000_000 + k as u128 * 1000, "uusdc"), coin(1_000_000_000, "uusdt")])).unwrap();
        let (i, oo) = if k % 2 == 0 { ("uusdc", "uusdt") } else { ("uusdt", "uusdc") };
        hops.push((format!("o.{id}"), i.to_string(), oo.to_string()));
    }
    let st = w.s.snapshot(w.mask);
    w.t.reset("long_route_ready", st);
    w.route(&a, &hops, &[coin(1_000_000, "uusdc")], None, None, Some(Decimal::percent(50)));
    w.route(&a, &hops[..100], &[coin(1_000_000, "uusdc")], None, None, Some(Decimal::percent(50)));
}

/// C17: toggles on one pool of two twins; every operation and path
fn sc_toggles(t: &mut Tracer) {
    let mut w = std_world(t, "toggles", 100, [6, 6]);
    let (o, a) = (w.user(0), w.user(2));
    let half = Some(Decimal::percent(50));
    let lp1 = w.s.lp_denom("o.cp1");
    let lp_user = w.user(1);
    let h = |p: &str, i: &str, o: &str| (p.to_string(), i.to_string(), o.to_string());
    for mask in [0b111u8, 0b110, 0b101, 0b011, 0b000, 0b100, 0b010, 0b001, 0b111] {
        let tg = pm::FeatureToggle { pool_identifier: "o.cp1".into(), swaps_enabled: Some(mask & 1 != 0), deposits_enabled: Some(mask & 2 != 0), withdrawals_enabled: Some(mask & 4 != 0) };
        w.update_config(&o, Some(tg), None, &[], "toggle cp1");
        w.swap(&a, "o.cp1", &[coin(1000, "uusdc")], "uusdt", None, half, None);
        w.route(&a, &[h("o.cp1", "uusdc", "uusdt"), h("o.cp2", "uusdt", "uweth")], &[coin(1000, "uusdc")], None, None, half); // first hop
        w.route(&a, &[h("o.ss1", "uusd", "uusdc"), h("o.cp1", "uusdc", "uusdt")], &[coin(1000, "uusd")], None, None, half); // last hop
        w.route(&a, &[h("o.ss1", "uusd", "uusdc"), h("o.cp1", "uusdc", "uusdt"), h("o.cp2", "uusdt", "uweth")], &[coin(1000, "uusd")], None, None, half); // middle
        w.provide(&a, "o.cp1", &sorted(vec![coin(5_000_000, "uusdc"), coin(7_000_000, "uusdt")]), None, None, None, None, None);
        w.provide(&a, "o.cp1", &[coin(10_001, "uusdc")], None, None, None, None, half);
        w.provide(&a, "o.cp1", &sorted(vec![coin(5_000_000, "uusdc"), coin(7_000_000, "uusdt")]), None, Some(DAY), None, None, None);
        w.withdraw(&lp_user, "o.cp1", &[coin(1_000_000, lp1.clone())]);
        // the other pools are unaffected
        w.swap(&a, "o.cp2", &[coin(1000, "uusdt")], "uweth", None, half, None);
        w.provide(&a, "o.ss1", &[coin(10_001, "uusd")], None, None, None, None, half);
        w.route(&a, &[h("o.ss1", "uusd", "uusdc")], &[coin(1000, "uusd")], None, None, half);
    }
    // partial toggles (only one flag given), by a non-owner, with funds, on an unknown pool
    w.update_config(&o, Some(pm::FeatureToggle { pool_identifier: "o.ss1".into(), swaps_enabled: Some(false), deposits_enabled: None, withdrawals_enabled: None }), None, &[], "ss1 swaps off");
    w.provide(&a, "o.ss1", &[coin(10_001, "uusd")], None, None, None, None, half); // swaps off: single-asset refused
    w.provide(&a, "o.ss1", &sorted(vec![coin(10_000, "uusd"), coin(11_000, "uusdc")]), None, None, None, None, None); // deposits still on
    w.update_config(&a, Some(pm::FeatureToggle { pool_identifier: "o.ss1".into(), swaps_enabled: Some(true), deposits_enabled: None, withdrawals_enabled: None }), None, &[], "by non-owner");
    w.update_config(&o, Some(pm::FeatureToggle { pool_identifier: "o.ss1".into(), swaps_enabled: Some(true), deposits_enabled: None, withdrawals_enabled: None }), None, &[coin(1, "uom")], "with funds");
    w.update_config(&o, Some(pm::FeatureToggle { pool_identifier: "o.zzz".into(), swaps_enabled: Some(true), deposits_enabled: None, withdrawals_enabled: None }), None, &[], "unknown pool");
    w.update_config(&o, Some(pm::FeatureToggle { pool_identifier: "o.ss1".into(), swaps_enabled: Some(true), deposits_enabled: None, withdrawals_enabled: None }), None, &[], "ss1 swaps on");
    w.swap(&a, "o.ss1", &[coin(1000, "uusd")], "uusdc", None, half, None);
    // deposits switched off before the pool was ever funded: the first deposit is a deposit
    {
        let ok = w.creation_funds();
        for (kind, id) in [(CP, "virgin"), (SS(85), "virgins")] {
            w.create_pool(&o, &["uusdc", "uusdt"], &[6, 6], fees(100, 100, 0, &[]), kind, Some(id), &ok);
            let pid = format!("o.{id}");
            w.update_config(&o, Some(pm::FeatureToggle { pool_identifier: pid.clone(), swaps_enabled: None, deposits_enabled: Some(false), withdrawals_enabled: None }), None, &[], "deposits off before funding");
            w.provide(&a, &pid, &sorted(vec![coin(1_000_000, "uusdc"), coin(1_000_000, "uusdt")]), None, None, None, None, None);
            w.provide(&a, &pid, &sorted(vec![coin(1_000_000, "uusdc"), coin(1_000_000, "uusdt")]), None, Some(DAY), None, None, None);
            w.update_config(&o, Some(pm::FeatureToggle { pool_identifier: pid.clone(), swaps_enabled: None, deposits_enabled: Some(true), withdrawals_enabled: None }), None, &[], "deposits on");
            w.provide(&a, &pid, &sorted(vec![coin(1_000_000, "uusdc"), coin(1_000_000, "uusdt")]), None, None, None, None, None);
        }
    }
    // a toggle sent together with another configuration field: both apply
    w.update_config(&o, Some(pm::FeatureToggle { pool_identifier: "o.cp2".into(), swaps_enabled: Some(false), deposits_enabled: None, withdrawals_enabled: Some(false) }), Some(coin(1234, "uusd")), &[], "fee and toggle together");
    w.swap(&a, "o.cp2", &[coin(1000, "uusdt")], "uweth", None, half, None);
    w.update_config(&o, Some(pm::FeatureToggle { pool_identifier: "o.cp2".into(), swaps_enabled: Some(true), deposits_enabled: None, withdrawals_enabled: Some(true) }), Some(coin(1000, "uusd")), &[], "fee and toggle together, back");
    w.swap(&a, "o.cp2", &[coin(1000, "uusdt")], "uweth", None, half, None);
    // the swap switch of a three-asset pool does not concern deposits that bring some but not all of its assets
    w.update_config(&o, Some(pm::FeatureToggle { pool_identifier: "o.ss3".into(), swaps_enabled: Some(false), deposits_enabled: None, withdrawals_enabled: None }), None, &[], "ss3 swaps off");
    w.provide(&a, "o.ss3", &sorted(vec![coin(10_000_000, "uusd"), coin(11_000_000, "uusdt")]), None, None, None, None, None);
    w.provide(&a, "o.ss3", &sorted(vec![coin(10_000_000, "uusd"), coin(11_000_000, "uusdt"), coin(9_000_000_000_000_000_000, "uweth")]), None, None, None, None, None);
    w.provide(&a, "o.ss3", &[coin(10_000_000, "uusd")], None, None, None, None, half); // one asset of three: refused as before
    w.swap(&a, "o.ss3", &[coin(1000, "uusd")], "uusdt", None, half, None);
    w.update_config(&o, Some(pm::FeatureToggle { pool_identifier: "o.ss3".into(), swaps_enabled: None, deposits_enabled: Some(false), withdrawals_enabled: None }), None, &[], "ss3 deposits off too");
    w.provide(&a, "o.ss3", &sorted(vec![coin(10_000_000, "uusd"), coin(11_000_000, "uusdt")]), None, None, None, None, None);
}

/// C13: offers straddling the tolerance, belief prices, deposit tolerances
fn sc_slippage(t: &mut Tracer, ss_decs: [u8; 2], name: &str) {
    let mut w = std_world(t, name, 100, ss_decs);
    let a = w.user(2);
    let d = |x: u8| 10u128.pow(x as u32);
    let tols: Vec<Option<Decimal>> = vec![None, Some(Decimal::zero()), Some(Decimal::permille(5)), Some(Decimal::percent(1)), Some(Decimal::percent(10)),
        Some(Decimal::percent(50)), Some(Decimal::percent(70)), Some(Decimal::percent(100)), Some(Decimal::percent(150))];
    for (pool, od, ad, odec) in [("o.cp1", "uusdc", "uusdt", 6u8), ("o.cp1", "uusdt", "uusdc", 6), ("o.ss1", "uusd", "uusdc", ss_decs[0]), ("o.ss1", "uusdc", "uusd", ss_decs[1])] {
        for tol in &tols {
            let eff = tol.unwrap_or(Decimal::percent(1)).min(Decimal::percent(50));
            // bisect with the Simulation query for the largest offer whose slippage ratio is within eff
            let (mut lo, mut hi) = (1u128, 3_000_000 * d(odec));
            for _ in 0..60 {
                let mid = (lo + hi) / 2;
                let within = match w.simulate(pool, &coin(mid, od), ad) {
                    Ok(x) => {
                        let tot = x.return_amount.u128() + x.slippage_amount.u128();
                        tot > 0 && Decimal::from_ratio(x.slippage_amount.u128(), tot) <= eff
                    }
                    Err(_) => false,
                };
                if within { lo = mid } else { hi = mid }
                if lo + 1 >= hi { break; }
            }
            for offer in [lo.saturating_sub(1).max(1), lo, lo + 1, hi, hi + 1] {
                w.swap(&a, pool, &[coin(offer, od)], ad, None, *tol, None);
            }
        }
        // belief prices: at the pool price, 1% better, 10% better than the pool can give
        let probe = 1_000 * d(odec);
        if let Ok(x) = w.simulate(pool, &coin(probe, od), ad) {
            let ret = x.return_amount.u128().max(1);
            for (num, den) in [(100u128, 100u128), (101, 100), (99, 100), (110, 100), (200, 100), (201, 100), (400, 100)] {
                // belief_price = offer / expected_return
                let belief = Decimal::from_ratio(probe * den, ret * num);
                for tol in [None, Some(Decimal::zero()), Some(Decimal::percent(1)), Some(Decimal::percent(10)), Some(Decimal::percent(50)),
                            Some(Decimal::percent(70)), Some(Decimal::percent(100)), Some(Decimal::percent(150))] {
                    w.swap(&a, pool, &[coin(probe, od)], ad, Some(belief), tol, None);
                }
            }
        }
    }
    // exactly proportional deposits (reserves are multiples of the deposit) under every valid tolerance
    {
        let o = w.user(0);
        let lp = w.user(1);
        let ok = w.creation_funds();
        w.create_pool(&o, &["uusdc", "uusdt"], &[6, 6], fees(100, 200, 0, &[]), CP, Some("pcp"), &ok);
        w.create_pool(&o, &["uusd", "uusdc"], &ss_decs, fees(30, 40, 10, &[]), SS(100), Some("pss"), &ok);
        w.provide(&lp, "o.pcp", &sorted(vec![coin(3_000_000 * d(6), "uusdc"), coin(5_000_000 * d(6), "uusdt")]), None, None, None, None, None);
        w.provide(&lp, "o.pss", &sorted(vec![coin(3_000_000 * d(ss_decs[0]), "uusd"), coin(5_000_000 * d(ss_decs[1]), "uusdc")]), None, None, None, None, None);
        // deposits larger than the pool, skewed by ~17%: the ratio is measured against the reserves before the deposit
        for tol in [Decimal::percent(5), Decimal::percent(10), Decimal::percent(16), Decimal::percent(17), Decimal::percent(20)] {
            let p = w.s.q_pool("o.pcp").unwrap();
            let r: Vec<u128> = p.pool_info.assets.iter().map(|c| c.amount.u128()).collect();
            let names: Vec<String> = p.pool_info.assets.iter().map(|c| c.denom.clone()).collect();
            w.provide(&a, "o.pcp", &sorted(vec![coin(r[0] * 10, names[0].clone()), coin(r[1] * 12, names[1].clone())]), None, None, None, Some(tol), None);
            let lpd = w.s.lp_denom("o.pcp");
            let have = w.s.bal(&a, &lpd);
            if have > 0 { w.withdraw(&a, "o.pcp", &[coin(have, lpd)]); }
        }
        for (j, tol) in [Decimal::zero(), Decimal::permille(1), Decimal::percent(1), Decimal::percent(50), Decimal::percent(100)].iter().enumerate() {
            let k = (j as u128 + 1) * 7;
            w.provide(&a, "o.pcp", &sorted(vec![coin(3 * k * d(6), "uusdc"), coin(5 * k * d(6), "uusdt")]), None, None, None, Some(*tol), None);
            w.provide(&a, "o.pss", &sorted(vec![coin(3 * k * d(ss_decs[0]), "uusd"), coin(5 * k * d(ss_decs[1]), "uusdc")]), None, None, None, Some(*tol), None);
        }
    }
    // a constant-product pool priced 1 : 10: deposits skewed either way are judged against the tolerance, whichever raw amount is larger
    {
        let o = w.user(0);
        let ok = w.creation_funds();
        w.create_pool(&o, &["uusdc", "uweth"], &[6, 6], fees(0, 0, 0, &[]), CP, Some("oneten"), &ok);
        w.provide(&a, "o.oneten", &sorted(vec![coin(1_000_000, "uusdc"), coin(10_000_000, "uweth")]), None, None, None, None, None);
        for (x, y) in [(100_000u128, 1_000_000u128), (100_000, 500_000), (100_000, 950_000), (100_000, 2_000_000), (50_000, 1_000_000), (104_000, 1_000_000)] {
            for tol in [Decimal::percent(1), Decimal::percent(10), Decimal::percent(60)] {
                w.provide(&a, "o.oneten", &sorted(vec![coin(x, "uusdc"), coin(y, "uweth")]), None, None, None, Some(tol), None);
            }
        }
    }
    // deposit tolerances: proportional deposit under every tolerance on both pool types; skewed ladder
    let tol_ladder = [Decimal::zero(), Decimal::permille(1), Decimal::percent(1), Decimal::percent(10), Decimal::percent(50), Decimal::percent(100), Decimal::percent(101)];
    for tol in tol_ladder {
        for (pool, d0, d1) in [("o.cp1", "uusdc", "uusdt"), ("o.ss1", "uusd", "uusdc")] {
            let p = w.s.q_pool(pool).unwrap();
            let r: Vec<u128> = p.pool_info.assets.iter().map(|c| c.amount.u128()).collect();
            let names: Vec<String> = p.pool_info.assets.iter().map(|c| c.denom.clone()).collect();
            let _ = (d0, d1);
            // exact proportion: 1/1000 of each reserve (reserves made divisible first is not possible; use floor and report)
            let f = sorted(vec![coin(r[0] / 1000, names[0].clone()), coin(r[1] / 1000, names[1].clone())]);
            w.provide(&a, pool, &f, None, None, None, Some(tol), None);
            for skew in [1005u128, 1100, 2000] {
                let f = sorted(vec![coin(r[0] / 1000, names[0].clone()), coin(r[1] * skew / 1_000_000, names[1].clone())]);
                w.provide(&a, pool, &f, None, None, None, Some(tol), None);
                // the same skewed deposit with the LP locked: the tolerance applies all the same
                if skew != 1100 {
                    let f = sorted(vec![coin(r[0] / 1000, names[0].clone()), coin(r[1] * skew / 1_000_000, names[1].clone())]);
                    w.provide(&a, pool, &f, None, Some(DAY), None, Some(tol), None);
                }
            }
        }
    }
}

/// C19/C03/C02 magnitudes: one stableswap pool with the given parameters, swaps and deposits
#[allow(clippy::too_many_arguments)]
pub fn sc_stable_magnitude(t: &mut Tracer, rng: &mut StdRng, idx: usize, n: usize, amp: u64, decs: &[u8], base: u128, skew: &[u128], fee: PoolFee, nswaps: usize) {
    let mut w = PW::new(SysCfg::default(), t, &format!("stable_{idx}_n{n}_amp{amp}"));
    let o = w.user(0);
    let ok = w.creation_funds();
    let all = ["uusd", "uusdc", "uusdt", "uweth"];
    let denoms: Vec<&str> = all[..n].to_vec();
    if !w.create_pool(&o, &denoms, decs, fee, SS(amp), Some("s"), &ok) {
        return;
    }
    let lp = w.user(1);
    let tr = w.user(2);
    let d = |x: u8| 10u128.pow(x as u32);
    // reserves: base whole tokens times skew (per mille)
    let f: Vec<Coin> = (0..n).map(|i| coin((base * skew[i] / 1000).max(1) * d(decs[i]) + rng.gen_range(0..d(decs[i]).min(1000)), denoms[i])).collect();
    if !w.provide(&lp, "o.s", &sorted(f.clone()), None, None, None, None, None) {
        return;
    }
    let half = Some(Decimal::percent(50));
    for _ in 0..nswaps {
        let p = w.s.q_pool("o.s").unwrap();
        let oi = rng.gen_range(0..n);
        let mut ai = rng.gen_range(0..n);
        if ai == oi { ai = (oi + 1) % n; }
        let ro = p.pool_info.assets[oi].amount.u128();
        let offer = match rng.gen_range(0..8) {
            0 => rng.gen_range(1..4),
            1 => rng.gen_range(1..1000),
            2 => ro / 1_000_000 + 1,
            3 => ro / 1000 + 1,
            4 => ro / 10 + 1,
            5 => ro / 2 + 1,
            6 => ro.saturating_mul(rng.gen_range(1..4)),
            _ => rng.gen_range(1..ro.max(2)),
        };
        match rng.gen_range(0..10) {
            0 => {
                // balanced-ish deposit by a third party
                let g: Vec<Coin> = (0..n).map(|i| coin(p.pool_info.assets[i].amount.u128() / rng.gen_range(50..5000) + 1, denoms[i])).collect();
                w.provide(&tr, "o.s", &sorted(g), None, None, None, None, None);
            }
            1 => {
                // skewed / partial deposit
                let k = rng.gen_range(1..=n);
                let mut idxs: Vec<usize> = (0..n).collect();
                idxs.shuffle(rng);
                let g: Vec<Coin> = idxs[..k].iter().map(|&i| coin(p.pool_info.assets[i].amount.u128() / rng.gen_range(20..2000) + 1, denoms[i])).collect();
                if g.len() > 1 || n == 2 {
                    w.provide(&tr, "o.s", &sorted(g), None, None, None, None, half);
                }
            }
            2 => {
                let lpd = w.s.lp_denom("o.s");
                let have = w.s.bal(&lp, &lpd);
                if have > 0 {
                    let burn = match rng.gen_range(0..3) { 0 => rng.gen_range(1..1000.min(have) + 1), 1 => have / rng.gen_range(2..1000) + 1, _ => have / 10 + 1 };
                    w.withdraw(&lp, "o.s", &[coin(burn.min(have), lpd)]);
                }
            }
            3 => w.rsim("o.s", &coin((p.pool_info.assets[ai].amount.u128() / rng.gen_range(3..5000)).max(1), denoms[ai]), denoms[oi]),
            _ => {
                w.swap(&tr, "o.s", &[coin(offer, denoms[oi])], denoms[ai], None, half, None);
            }
        }
    }
}

/// random history over the standard world
fn random_history(rng: &mut StdRng, t: &mut Tracer, steps: usize, idx: usize) {
    let decs = *[[6u8, 6u8], [6, 18], [18, 6], [8, 12]].choose(rng).unwrap();
    let amp = *[1u64, 10, 85, 100, 1000, 1_000_000].choose(rng).unwrap();
    let mut w = std_world(t, &format!("random_{idx}"), amp, decs);
    let pools = ["o.cp1", "o.cp2", "o.cp0", "o.ss1", "o.ss3"];
    let h = |p: &str, i: &str, o: &str| (p.to_string(), i.to_string(), o.to_string());
    let slips = [None, Some(Decimal::percent(1)), Some(Decimal::percent(5)), Some(Decimal::percent(50)), Some(Decimal::percent(50)), Some(Decimal::percent(50))];
    for _ in 0..steps {
        let who = w.user(rng.gen_range(1..NUSERS));
        let pool = *pools.choose(rng).unwrap();
        let p = match w.s.q_pool(pool) { Some(p) => p, None => continue };
        let n = p.pool_info.assets.len();
        let names: Vec<String> = p.pool_info.assets.iter().map(|c| c.denom.clone()).collect();
        let res: Vec<u128> = p.pool_info.assets.iter().map(|c| c.amount.u128()).collect();
        let oi = rng.gen_range(0..n);
        let ai = (oi + rng.gen_range(1..n)) % n;
        let slip = *slips.choose(rng).unwrap();
        let amt = |rng: &mut StdRng, r: u128| -> u128 {
            match rng.gen_range(0..6) { 0 => rng.gen_range(1..10), 1 => r / 1_000_000 + 1, 2 => r / 1000 + 1, 3 => r / 20 + 1, 4 => r / 2 + 1, _ => rng.gen_range(1..r.max(2)) }
        };
        match rng.gen_range(0..100) {
            0..=34 => {
                let recv = if rng.gen_bool(0.2) { Some(w.user(rng.gen_range(1..NUSERS))) } else { None };
                w.swap(&who, pool, &[coin(amt(rng, res[oi]), names[oi].clone())], &names[ai], None, slip, recv.as_ref());
            }
            35..=46 => {
                let f: Vec<Coin> = (0..n).map(|i| coin(res[i] / rng.gen_range(10..100_000) + 1, names[i].clone())).collect();
                let tol = if rng.gen_bool(0.2) { Some(Decimal::percent(rng.gen_range(0..30))) } else { None };
                let (lock, lid) = if rng.gen_bool(0.2) { (Some(DAY * rng.gen_range(1..300)), match rng.gen_range(0..3) { 0 => Some("lk"), 1 => Some("u-lk"), _ => None }) } else { (None, None) };
                w.provide(&who, pool, &sorted(f), None, lock, lid, tol, None);
            }
            47..=52 => {
                // skewed two-sided / partial
                let mut f: Vec<Coin> = (0..n).map(|i| coin(res[i] / rng.gen_range(10..100_000) + 1, names[i].clone())).collect();
                f[oi].amount = Uint128::new(amt(rng, res[oi]) / 10 + 1);
                if n > 2 && rng.gen_bool(0.5) { f.remove(ai); }
                w.provide(&who, pool, &sorted(f), None, None, None, None, None);
            }
            53..=62 => {
                let recv = if rng.gen_bool(0.2) { Some(w.user(rng.gen_range(1..NUSERS))) } else { None };
                let lock = if rng.gen_bool(0.25) { Some(DAY * rng.gen_range(1..300)) } else { None };
                w.provide(&who, pool, &[coin(amt(rng, res[oi]) / 4 + 1, names[oi].clone())], recv.as_ref(), lock, None, None, slip);
            }
            63..=74 => {
                let lpd = p.pool_info.lp_denom.clone();
                let have = w.s.bal(&who, &lpd);
                if have > 0 {
                    let burn = match rng.gen_range(0..4) { 0 => rng.gen_range(1..have.min(100) + 1), 1 => have / rng.gen_range(2..100_000) + 1, 2 => have, _ => have / 3 + 1 };
                    w.withdraw(&who, pool, &[coin(burn.min(have), lpd)]);
                }
            }
            75..=86 => {
                // a route of 1..3 hops chosen among connected pools
                let routes: Vec<Vec<(String, String, String)>> = vec![
                    vec![h("o.cp1", "uusdc", "uusdt"), h("o.cp2", "uusdt", "uweth")],
                    vec![h("o.cp2", "uweth", "uusdt"), h("o.cp1", "uusdt", "uusdc"), h("o.ss1", "uusdc", "uusd")],
                    vec![h("o.ss1", "uusd", "uusdc"), h("o.cp1", "uusdc", "uusdt"), h("o.ss3", "uusdt", "uusd")],
                    vec![h("o.cp0", "uom", "uusd"), h("o.ss3", "uusd", "uweth"), h("o.cp2", "uweth", "uusdt")],
                    vec![h("o.ss3", "uweth", "uusdt"), h("o.cp1", "uusdt", "uusdc")],
                    vec![h("o.cp1", "uusdt", "uusdc"), h("o.cp1", "uusdc", "uusdt")],
                    vec![h("o.cp0", "uusd", "uom")],
                ];
                let r = routes.choose(rng).unwrap().clone();
                let first = w.s.q_pool(&r[0].0).unwrap();
                let ri = first.pool_info.assets.iter().find(|c| c.denom == r[0].1).map(|c| c.amount.u128()).unwrap_or(1000);
                let offer = amt(rng, ri) / 5 + 1;
                let minr = if rng.gen_bool(0.3) { Some(rng.gen_range(1..offer + 2)) } else { None };
                let recv = if rng.gen_bool(0.2) { Some(w.user(rng.gen_range(1..NUSERS))) } else { None };
                w.route(&who, &r, &[coin(offer, r[0].1.clone())], minr, recv.as_ref(), slip);
            }
            87..=92 => w.rsim(pool, &coin((res[ai] / rng.gen_range(3..100_000)).max(1), names[ai].clone()), &names[oi]),
            93..=95 => w.donate(&who, coin(rng.gen_range(1..1_000_000), names[oi].clone())),
            96..=97 => {
                let o = w.user(0);
                let tg = pm::FeatureToggle { pool_identifier: pool.to_string(), swaps_enabled: Some(rng.gen_bool(0.7)), deposits_enabled: Some(rng.gen_bool(0.7)), withdrawals_enabled: Some(rng.gen_bool(0.7)) };
                w.update_config(&o, Some(tg), None, &[], "random toggle");
            }
            _ => w.advance(rng.gen_range(1..3 * DAY)),
        }
    }
}

/// a deployment upgraded from v1.2.0 whose pool records carry their reserves in alphabetical order although the pools were
/// created in another order (what releases before the repair of F10 stored): swaps, deposits and withdrawals keep working
fn sc_upgraded_legacy_records(t: &mut Tracer) {
    let mut w = PW::new(SysCfg { admin: true, ..Default::default() }, t, "upgraded_legacy_records");
    let (o, a, tr) = (w.user(0), w.user(1), w.user(2));
    let ok = w.creation_funds();
    let half = Some(Decimal::percent(50));
    w.create_pool(&o, &["uusdt", "uusdc"], &[6, 6], fees(100, 200, 50, &[]), CP, Some("zc"), &ok);
    w.create_pool(&o, &["uweth", "uusd", "uom"], &[18, 6, 6], fees(30, 40, 10, &[]), SS(85), Some("zs"), &ok);
    w.provide(&a, "o.zc", &sorted(vec![coin(2_000_000_000, "uusdc"), coin(3_000_000_000, "uusdt")]), None, None, None, None, None);
    w.provide(&a, "o.zs", &sorted(vec![coin(1_000_000_000, "uom"), coin(1_100_000_000, "uusd"), coin(900_000_000_000_000_000_000, "uweth")]), None, None, None, None, None);
    let n = w.s.downgrade_pool_manager_storage_with(true);
    let r = w.s.try_migrate("pm", "pm", &o);
    let post = w.s.snapshot(w.mask);
    w.t.emit("pm_upgrade", json!({"ok": r.is_ok() && n.is_ok(), "errtext": r.err().unwrap_or_default(), "post": post}));
    for amt in [10_000u128, 5_000_000] {
        w.swap(&tr, "o.zc", &[coin(amt, "uusdt")], "uusdc", None, half, None);
        w.swap(&tr, "o.zc", &[coin(amt, "uusdc")], "uusdt", None, half, None);
        w.swap(&tr, "o.zs", &[coin(amt, "uusd")], "uom", None, half, None);
        w.swap(&tr, "o.zs", &[coin(amt, "uom")], "uweth", None, half, None);
    }
    w.provide(&a, "o.zc", &sorted(vec![coin(2_000_000, "uusdc"), coin(3_000_000, "uusdt")]), None, None, None, None, None);
    w.provide(&a, "o.zc", &[coin(10_001, "uusdt")], None, None, None, None, half);
    let lpd = w.s.lp_denom("o.zc");
    w.withdraw(&a, "o.zc", &[coin(1_000_000, lpd)]);
    w.route(&tr, &[h2("o.zc", "uusdc", "uusdt")], &[coin(77_000, "uusdc")], None, None, half);
}

/// C04: offers at which (fee share x the fraction the gross output's floor discards) carries into the next unit - a fee
/// computed from anything but the integer gross output is one unit off exactly there. Shares with numerators above one.
fn sc_fee_floor_boundaries(t: &mut Tracer) {
    let mut w = PW::new(SysCfg::default(), t, "fee_floor_boundaries");
    let (o, a) = (w.user(0), w.user(1));
    let ok = w.creation_funds();
    // protocol 0.3 %, swap 0.7 %, burn 0.03 %, extra 0.17 %
    w.create_pool(&o, &["uusdc", "uusdt"], &[6, 6], fees(300, 700, 30, &[170]), CP, Some("ff"), &ok);
    w.provide(&a, "o.ff", &[coin(1_000_000, "uusdc"), coin(1_000_000, "uusdt")], None, None, None, None, None);
    // fee shares that use all 18 digits of the fixed point (1/3000, 1/7000, 1/900, 1/1300) on outputs of 10^13 units and more
    {
        let fine = |n: u128| Fee { share: Decimal::from_ratio(1u128, n) };
        let pf = PoolFee { protocol_fee: fine(3000), swap_fee: fine(7000), burn_fee: fine(900), extra_fees: vec![fine(1300)] };
        if w.create_pool(&o, &["uusdc", "uweth"], &[6, 18], pf, CP, Some("fine"), &ok) {
            w.provide(&a, "o.fine", &sorted(vec![coin(1_000_000_000_000_000, "uusdc"), coin(2_000_000_000_000_000_000_000_000_000, "uweth")]), None, None, None, None, None);
            for amt in [30_000_000_000_000u128, 77_777_777_777_777, 123_456_789_012_345] {
                w.swap(&a, "o.fine", &[coin(amt, "uusdc")], "uweth", None, Some(Decimal::percent(50)), None);
            }
            w.swap(&a, "o.fine", &[coin(55_555_555_555_555_555_555_555_555, "uweth")], "uusdc", None, Some(Decimal::percent(50)), None);
            w.route(&a, &[h2("o.fine", "uusdc", "uweth")], &[coin(41_000_000_000_001, "uusdc")], None, None, Some(Decimal::percent(50)));
            // reverse quotes where the offered side holds 10^27 units: still enough to buy what was asked
            for ask in [100_000_000u128, 100_000_000_000_000, 7] {
                w.rsim("o.fine", &coin(ask, "uusdc"), "uweth");
            }
            w.rsim("o.fine", &coin(1_000_000_000_000_000_000, "uweth"), "uusdc");
        }
        // both reserves at 10^24 units (a million tokens of 18 decimals), small requests
        if w.create_pool(&o, &["uusd", "uweth"], &[18, 18], fees(300, 0, 0, &[]), CP, Some("big18"), &ok) {
            w.provide(&a, "o.big18", &sorted(vec![coin(1_000_000_000_000_000_000_000_000, "uusd"), coin(1_000_000_000_000_000_000_000_000, "uweth")]), None, None, None, None, None);
            for ask in [100_000_000_000_000u128, 1_000_000, 123_456_789_012_345_678] {
                w.rsim("o.big18", &coin(ask, "uusd"), "uweth");
                w.rsim("o.big18", &coin(ask, "uweth"), "uusd");
            }
            // withdrawals of a third, a seventh and a few units of that supply: pro rata to the unit
            let lpd = w.s.lp_denom("o.big18");
            let have = w.s.bal(&a, &lpd);
            for part in [have / 3, have / 7, 12_345, 1] {
                w.withdraw(&a, "o.big18", &[coin(part, lpd.clone())]);
            }
            w.provide(&a, "o.fine", &[coin(20_000_000_000_001, "uusdc")], None, None, None, None, Some(Decimal::percent(50)));
        }
    }
    let shares: [u128; 4] = [300, 700, 30, 170];
    let mut found = 0;
    let mut dx: u128 = 1000;
    while found < 14 && dx < 200_000 {
        let p = w.s.q_pool("o.ff").unwrap();
        let (x, y) = (p.pool_info.assets[0].amount.u128(), p.pool_info.assets[1].amount.u128());
        let (num, den) = (y * dx, x + dx);
        let g = num / den;
        // share * (num/den) floored differs from share * g floored for some share
        let tips = shares.iter().any(|s| (s * num) / (den * 100_000) != (s * g) / 100_000);
        if tips {
            w.swap(&a, "o.ff", &[coin(dx, "uusdc")], "uusdt", None, Some(Decimal::percent(50)), None);
            // and back, so that the reserves stay comparable
            w.swap(&a, "o.ff", &[coin(g, "uusdt")], "uusdc", None, Some(Decimal::percent(50)), None);
            found += 1;
            dx += 997;
        } else {
            dx += 1;
        }
    }
}

pub fn run(rng: &mut StdRng, thorough: bool, t: &mut Tracer) {
    sc_create_pool_classes(t, SysCfg::default(), "create_pool_classes_fee_other_denom");
    sc_create_pool_classes(t, SysCfg { pool_fee: coin(1000, "uom"), ..Default::default() }, "create_pool_classes_fee_same_denom");
    sc_create_pool_classes(t, SysCfg { tf_fee: vec![coin(8888, "uom"), coin(3, "uusdt")], ..Default::default() }, "create_pool_classes_two_tf_fees");
    sc_swaps_and_routes(t);
    sc_liquidity(t, [6, 6], "liquidity_6_6");
    sc_liquidity(t, [6, 18], "liquidity_6_18");
    sc_toggles(t);
    sc_unsorted_pools(t);
    sc_slippage(t, [6, 6], "slippage_6_6");
    sc_slippage(t, [6, 18], "slippage_6_18");
    sc_slippage(t, [18, 6], "slippage_18_6");
    if thorough {
        sc_long_route(t);
    }
    sc_fee_floor_boundaries(t);
    sc_upgraded_legacy_records(t);
    let (n, steps) = if thorough { (30, 150) } else { (5, 80) };
    for i in 0..n {
        random_history(rng, t, steps, i);
    }
}

/// stableswap magnitude driver (C19, C03, C02): parameter sweep
pub fn run_stable(rng: &mut StdRng, thorough: bool, t: &mut Tracer) {
    let zero = fees(0, 0, 0, &[]);
    // seed-independent core, incl. the witnesses of the stableswap findings
    sc_stable_magnitude(t, rng, 0, 2, 100, &[6, 8], 300, &[668, 1669], zero.clone(), 12);
    sc_stable_magnitude(t, rng, 1, 2, 10, &[6, 6], 60_000, &[1000, 7], zero.clone(), 12);
    sc_stable_magnitude(t, rng, 2, 3, 85, &[6, 6, 18], 1_000_000, &[1000, 1100, 900], fees(30, 40, 10, &[5]), 12);
    sc_stable_magnitude(t, rng, 3, 4, 1000, &[6, 8, 12, 18], 50_000, &[1000, 1000, 1000, 1000], fees(0, 100, 0, &[]), 12);
    sc_stable_magnitude(t, rng, 4, 2, 1, &[18, 18], 5_000_000, &[1000, 1000], zero.clone(), 12);
    sc_stable_magnitude(t, rng, 5, 2, 1_000_000, &[12, 6], 1_000_000_000, &[1000, 3], fees(10, 10, 10, &[]), 12);
    // normalised reserves around u128::MAX / n .. u128::MAX (6-decimals reserves of 10^26 units next to 18-decimals ones)
    for (k, (r6, r18)) in [(100_000_000_000_000_000_000u128, 1_000_000_000_000_000_000u128), (200_000_000_000_000_000_000, 1_000_000_000_000_000_000),
                           (300_000_000_000_000_000_000, 100_000_000_000_000_000_000), (50_000_000_000_000_000_000, 50_000_000_000_000_000_000)].iter().enumerate() {
        sc_stable_magnitude(t, rng, 6 + k, 2, 85, &[6, 18], 1, &[1000, 1000], zero.clone(), 0);
        // the helper deposits base*skew; here the raw amounts are given directly
        let mut w = PW::new(SysCfg::default(), t, &format!("stable_limit_{k}"));
        let o = w.user(0);
        let ok = w.creation_funds();
        if w.create_pool(&o, &["uusd", "uusdc"], &[6, 18], zero.clone(), SS(85), Some("s"), &ok) {
            let lp = w.user(1);
            let f = sorted(vec![coin(*r6 * 1_000_000, "uusd"), coin(*r18 * 1_000_000_000_000_000_000, "uusdc")]);
            w.provide(&lp, "o.s", &f, None, None, None, None, None);
            w.swap(&lp, "o.s", &[coin(1_000_000_000, "uusd")], "uusdc", None, Some(Decimal::percent(50)), None);
            w.provide(&lp, "o.s", &sorted(vec![coin(1_000_000, "uusd"), coin(1_000_000_000_000_000_000, "uusdc")]), None, None, None, None, None);
        }
    }
    // amplification above the documented range is accepted at creation: the pool must still be priced consistently
    sc_stable_magnitude(t, rng, 90, 2, 50_000_000, &[6, 6], 10_000_000, &[900, 100], fees(100, 200, 100, &[]), 10);
    // offers worth less than one unit of the ask asset on a skewed low-amp pool (18 -> 6 decimals, ask asset cheap)
    {
        let mut w = PW::new(SysCfg::default(), t, "stable_subunit_offers");
        let o = w.user(0);
        let ok = w.creation_funds();
        if w.create_pool(&o, &["uusd", "uusdc"], &[18, 6], zero.clone(), SS(1), Some("s"), &ok) {
            let lp = w.user(1);
            w.provide(&lp, "o.s", &sorted(vec![coin(1_000 * 10u128.pow(18), "uusd"), coin(1_000_000 * 10u128.pow(6), "uusdc")]), None, None, None, None, None);
            for offer in [1u128, 999, 100_000_000_000, 500_000_000_000, 999_999_999_999, 1_000_000_000_000, 3_000_000_000_001] {
                w.swap(&lp, "o.s", &[coin(offer, "uusd")], "uusdc", None, Some(Decimal::percent(50)), None);
            }
        }
    }
    // a reserve drained to exactly zero (oversized swap on a fee-less pool, belief price given): no quote may be produced afterwards
    {
        let mut w = PW::new(SysCfg::default(), t, "stable_drained_reserve");
        let o = w.user(0);
        let ok = w.creation_funds();
        if w.create_pool(&o, &["uusd", "uusdc"], &[6, 6], zero.clone(), SS(85), Some("s"), &ok) {
            let lp = w.user(1);
            w.provide(&lp, "o.s", &sorted(vec![coin(10_000, "uusd"), coin(10_000, "uusdc")]), None, None, None, None, None);
            w.swap(&lp, "o.s", &[coin(1_000_000_000_000, "uusd")], "uusdc", Some(Decimal::from_ratio(100_000_000u128, 1u128)), Some(Decimal::percent(50)), None);
            w.swap(&lp, "o.s", &[coin(100_000_000_000, "uusdc")], "uusd", None, Some(Decimal::percent(50)), None);
            w.swap(&lp, "o.s", &[coin(1_000, "uusdc")], "uusd", None, Some(Decimal::percent(50)), None);
            w.rsim("o.s", &coin(1_000_000, "uusd"), "uusdc");
        }
    }
    // outside the supported range: an asset registered with more than 18 decimals (the contract cannot scale it: every quote is
    // refused), and first deposits skewed 10^6:1 .. 10^7:1 (the invariant used to mint must still be the root, or the deposit refused)
    {
        let mut w = PW::new(SysCfg::default(), t, "stable_outside_supported_range");
        let o = w.user(0);
        let ok = w.creation_funds();
        let lp = w.user(1);
        let half = Some(Decimal::percent(50));
        if w.create_pool(&o, &["uusd", "uweth"], &[6, 24], zero.clone(), SS(85), Some("wide"), &ok) {
            w.provide(&lp, "o.wide", &sorted(vec![coin(1_000_000_000, "uusd"), coin(1_000_000_000_000_000_000_000_000_000, "uweth")]), None, None, None, None, None);
            w.swap(&lp, "o.wide", &[coin(1_000_000_000_000_000_000_000_000, "uweth")], "uusd", None, half, None);
            w.swap(&lp, "o.wide", &[coin(1_000_000, "uusd")], "uweth", None, half, None);
            w.rsim("o.wide", &coin(1_000_000, "uusd"), "uweth");
        }
        for (k, (amp, big)) in [(85u64, 10_000_000_000_000_000u128), (1, 1_000_000_000_000_000), (100, 10_000_000_000_000_000), (1_000_000, 10_000_000_000_000_000)].iter().enumerate() {
            let id = format!("lop{k}");
            if w.create_pool(&o, &["uusd", "uusdc", "uusdt", "uweth"], &[6, 6, 6, 6], zero.clone(), SS(*amp), Some(&id), &ok) {
                let pid = format!("o.{id}");
                w.provide(&lp, &pid, &sorted(vec![coin(*big, "uusd"), coin(1_000_000_000, "uusdc"), coin(1_000_000_000, "uusdt"), coin(1_000_000_000, "uweth")]), None, None, None, None, None);
                w.swap(&lp, &pid, &[coin(1_000_000, "uusdc")], "uusd", None, half, None);
            }
        }
    }
    // mixed decimals, and the raw reserves happen to be the same number for every asset (10^12 units each in a 6/8/8 pool is
    // 1 000 000 : 10 000 : 10 000 tokens): nothing special about that
    {
        let mut w = PW::new(SysCfg::default(), t, "stable_equal_raw_reserves");
        let o = w.user(0);
        let ok = w.creation_funds();
        let lp = w.user(1);
        let half = Some(Decimal::percent(50));
        if w.create_pool(&o, &["uusd", "uusdc", "uusdt"], &[6, 8, 8], zero.clone(), SS(1000), Some("eq"), &ok) {
            w.provide(&lp, "o.eq", &sorted(vec![coin(1_000_000_000_000, "uusd"), coin(1_000_000_000_000, "uusdc"), coin(1_000_000_000_000, "uusdt")]), None, None, None, None, None);
            w.swap(&lp, "o.eq", &[coin(50_000, "uusdc")], "uusd", None, half, None);
        }
        if w.create_pool(&o, &["uusd", "uweth"], &[6, 18], zero.clone(), SS(85), Some("eq2"), &ok) {
            w.provide(&lp, "o.eq2", &sorted(vec![coin(5_000_000_000_000_000_000, "uusd"), coin(5_000_000_000_000_000_000, "uweth")]), None, None, None, None, None);
            w.swap(&lp, "o.eq2", &[coin(1_000_000_000_000_000, "uweth")], "uusd", None, half, None);
            w.rsim("o.eq2", &coin(1_000_000, "uusd"), "uweth");
        }
    }
    // the witness of recorded finding F11 (the swap path's D is converged to 10^-12 tokens only), independent of the seed:
    // dust-size reserves of 6-decimals assets next to an 18-decimals one
    {
        let mut w = PW::new(SysCfg::default(), t, "stable_swap_path_granularity");
        let o = w.user(0);
        let ok = w.creation_funds();
        let lp = w.user(1);
        let half = Some(Decimal::percent(50));
        if w.create_pool(&o, &["uusd", "uusdt", "uweth"], &[6, 6, 18], zero.clone(), SS(85), Some("g"), &ok) {
            w.provide(&lp, "o.g", &sorted(vec![coin(306, "uusd"), coin(336, "uusdt"), coin(359_500_119_084_727, "uweth")]), None, None, None, None, None);
            for (amt, from, to) in [(135u128, "uusdt", "uusd"), (135, "uusdt", "uweth"), (77, "uusd", "uusdt"), (100_000_000_000_000, "uweth", "uusd"), (50, "uusd", "uweth")] {
                w.swap(&lp, "o.g", &[coin(amt, from)], to, None, half, None);
            }
        }
    }
    // the witness of recorded finding F12 (first-deposit D of a skewed four-asset pool), independent of the seed
    {
        let mut w = PW::new(SysCfg::default(), t, "stable_first_deposit_skewed_four_assets");
        let o = w.user(0);
        let ok = w.creation_funds();
        if w.create_pool(&o, &["uusd", "uusdc", "uusdt", "uweth"], &[6, 6, 18, 18], zero.clone(), SS(1), Some("s"), &ok) {
            let lp = w.user(1);
            w.provide(&lp, "o.s", &sorted(vec![coin(204_000_367, "uusd"), coin(611_000_510, "uusdc"), coin(1_000_000_000_000_000_727, "uusdt"), coin(1_000_000_000_000_000_156, "uweth")]), None, None, None, None, None);
            w.swap(&lp, "o.s", &[coin(1_000_000, "uusd")], "uusdc", None, Some(Decimal::percent(50)), None);
        }
    }
    let n = if thorough { 120 } else { 14 };
    for i in 0..n {
        let nn = rng.gen_range(2..=4);
        let amp = match rng.gen_range(0..8) { 0 => 1, 1 => 10, 2 => 85, 3 => 100, 4 => 1000, 5 => 1_000_000, _ => rng.gen_range(1..1_000_000) };
        let decs: Vec<u8> = (0..nn).map(|_| *[6u8, 6, 8, 12, 18, 18, 0, 2].choose(rng).unwrap()).collect();
        // whole tokens from dust to large, so that base * 10^dec stays below ~10^30
        let maxdec = *decs.iter().max().unwrap() as u32;
        let base = 10u128.pow(rng.gen_range(0..(30u32.saturating_sub(maxdec)).max(1)).min(12));
        let skew: Vec<u128> = (0..nn).map(|_| match rng.gen_range(0..4) { 0 => 1000, 1 => rng.gen_range(900..1100), 2 => rng.gen_range(1..1000), _ => rng.gen_range(1000..1_000_000) }).collect();
        let fee = match rng.gen_range(0..3) { 0 => zero.clone(), 1 => fees(30, 40, 10, &[5]), _ => fees(rng.gen_range(0..5000), rng.gen_range(0..5000), rng.gen_range(0..5000), &[rng.gen_range(0..2000)]) };
        sc_stable_magnitude(t, rng, 10 + i, nn, amp, &decs, base.max(1), &skew, fee, if thorough { 25 } else { 14 });
    }
}
