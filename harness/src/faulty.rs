use anyhow::{bail, Result as AnyResult};
use cosmwasm_std::{
    Addr, AnyMsg, Api, BankMsg, BankQuery, Binary, BlockInfo, CustomMsg, CustomQuery, GrpcQuery,
    Querier, Storage,
};
use cw_multi_test::{AppResponse, Bank, BankKeeper, BankSudo, CosmosRouter, Module, Stargate};
use mantra_common_testing::multi_test::stargate_mock::StargateMock;
use serde::de::DeserializeOwned;
use std::cell::RefCell;
use std::rc::Rc;

#[derive(Default, Debug)]
pub struct FaultPlan {
    pub armed: bool,
    pub counter: usize,
    pub fail_at: Option<usize>,
    pub log: Vec<serde_json::Value>,
}
pub type Plan = Rc<RefCell<FaultPlan>>;

fn tick(plan: &Plan, what: serde_json::Value) -> AnyResult<()> {
    let mut p = plan.borrow_mut();
    if !p.armed {
        return Ok(());
    }
    p.counter += 1;
    p.log.push(what.clone());
    if p.fail_at == Some(p.counter) {
        bail!("injected fault at call {}: {}", p.counter, what);
    }
    Ok(())
}
fn bank_json(sender: &Addr, msg: &BankMsg) -> serde_json::Value {
    match msg {
        BankMsg::Send { to_address, amount } => serde_json::json!({"m": "bank_send", "from": sender.to_string(), "to": to_address,
            "coins": amount.iter().map(|c| serde_json::json!({"d": c.denom, "a": c.amount.to_string()})).collect::<Vec<_>>()}),
        BankMsg::Burn { amount } => serde_json::json!({"m": "bank_burn", "from": sender.to_string(), "to": "none",
            "coins": amount.iter().map(|c| serde_json::json!({"d": c.denom, "a": c.amount.to_string()})).collect::<Vec<_>>()}),
        _ => serde_json::json!({"m": "bank_other", "from": sender.to_string(), "to": "none", "coins": []}),
    }
}

pub struct FaultyBank {
    pub inner: BankKeeper,
    pub plan: Plan,
}
impl Bank for FaultyBank {}
impl Module for FaultyBank {
    type ExecT = BankMsg;
    type QueryT = BankQuery;
    type SudoT = BankSudo;
    fn execute<ExecC, QueryC>(
        &self,
        api: &dyn Api,
        storage: &mut dyn Storage,
        router: &dyn CosmosRouter<ExecC = ExecC, QueryC = QueryC>,
        block: &BlockInfo,
        sender: Addr,
        msg: BankMsg,
    ) -> AnyResult<AppResponse>
    where
        ExecC: CustomMsg + DeserializeOwned + 'static,
        QueryC: CustomQuery + DeserializeOwned + 'static,
    {
        tick(&self.plan, bank_json(&sender, &msg))?;
        self.inner.execute(api, storage, router, block, sender, msg)
    }
    fn query(
        &self,
        api: &dyn Api,
        storage: &dyn Storage,
        querier: &dyn Querier,
        block: &BlockInfo,
        request: BankQuery,
    ) -> AnyResult<Binary> {
        self.inner.query(api, storage, querier, block, request)
    }
    fn sudo<ExecC, QueryC>(
        &self,
        api: &dyn Api,
        storage: &mut dyn Storage,
        router: &dyn CosmosRouter<ExecC = ExecC, QueryC = QueryC>,
        block: &BlockInfo,
        msg: BankSudo,
    ) -> AnyResult<AppResponse>
    where
        ExecC: CustomMsg + DeserializeOwned + 'static,
        QueryC: CustomQuery + DeserializeOwned + 'static,
    {
        self.inner.sudo(api, storage, router, block, msg)
    }
}

pub struct FaultyStargate {
    pub inner: StargateMock,
    pub plan: Plan,
}
impl Stargate for FaultyStargate {
    fn execute_any<ExecC, QueryC>(
        &self,
        api: &dyn Api,
        storage: &mut dyn Storage,
        router: &dyn CosmosRouter<ExecC = ExecC, QueryC = QueryC>,
        block: &BlockInfo,
        sender: Addr,
        msg: AnyMsg,
    ) -> AnyResult<AppResponse>
    where
        ExecC: CustomMsg + DeserializeOwned + 'static,
        QueryC: CustomQuery + DeserializeOwned + 'static,
    {
        tick(&self.plan, serde_json::json!({"m": format!("tf:{}", msg.type_url.rsplit('.').next().unwrap_or("")), "from": sender.to_string(), "to": "none", "coins": []}))?;
        // the inner mock performs nested bank calls; do not count those
        let was = self.plan.borrow().armed;
        self.plan.borrow_mut().armed = false;
        let r = self.inner.execute_any(api, storage, router, block, sender, msg);
        self.plan.borrow_mut().armed = was;
        r
    }
    fn query_stargate(
        &self,
        api: &dyn Api,
        storage: &dyn Storage,
        querier: &dyn Querier,
        block: &BlockInfo,
        path: String,
        data: Binary,
    ) -> AnyResult<Binary> {
        self.inner.query_stargate(api, storage, querier, block, path, data)
    }
    fn query_grpc(
        &self,
        api: &dyn Api,
        storage: &dyn Storage,
        querier: &dyn Querier,
        block: &BlockInfo,
        request: GrpcQuery,
    ) -> AnyResult<Binary> {
        self.inner.query_grpc(api, storage, querier, block, request)
    }
}
