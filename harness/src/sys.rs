//! Deployment of the four real contracts on cw-multi-test, wired as in production, with
//! fault-injecting bank / token-factory modules. Only entry points and public message types of the
//! contracts are used.
use crate::faulty::*;
use cosmwasm_std::testing::MockStorage;
use cosmwasm_std::{coin, Addr, Coin, Decimal, Empty, Uint64};
use cw_multi_test::{
    App, AppBuilder, AppResponse, BankKeeper, Contract, ContractWrapper, DistributionKeeper,
    Executor, FailingModule, GovFailingModule, IbcFailingModule, MockApiBech32, StakeKeeper,
    WasmKeeper,
};
use mantra_common_testing::multi_test::stargate_mock::StargateMock;
use mantra_dex_std::epoch_manager::EpochConfig;
use mantra_dex_std::farm_manager as fm;
use mantra_dex_std::pool_manager as pm;
use std::cell::RefCell;
use std::collections::BTreeMap;
use std::rc::Rc;

pub type TApp = App<
    FaultyBank,
    MockApiBech32,
    MockStorage,
    FailingModule<Empty, Empty, Empty>,
    WasmKeeper<Empty, Empty>,
    StakeKeeper,
    DistributionKeeper,
    IbcFailingModule,
    GovFailingModule,
    FaultyStargate,
>;

fn c_pool() -> Box<dyn Contract<Empty>> {
    Box::new(
        ContractWrapper::new_with_empty(
            pool_manager::contract::execute,
            pool_manager::contract::instantiate,
            pool_manager::contract::query,
        )
        .with_reply(pool_manager::contract::reply)
        .with_migrate(pool_manager::contract::migrate),
    )
}
fn c_farm() -> Box<dyn Contract<Empty>> {
    Box::new(
        ContractWrapper::new(
            farm_manager::contract::execute,
            farm_manager::contract::instantiate,
            farm_manager::contract::query,
        )
        .with_reply(farm_manager::contract::reply)
        .with_migrate(farm_manager::contract::migrate),
    )
}
fn c_epoch() -> Box<dyn Contract<Empty>> {
    Box::new(ContractWrapper::new(
        epoch_manager::contract::execute,
        epoch_manager::contract::instantiate,
        epoch_manager::contract::query,
    ).with_migrate(epoch_manager::contract::migrate))
}
fn c_fee() -> Box<dyn Contract<Empty>> {
    Box::new(ContractWrapper::new(
        fee_collector::contract::execute,
        fee_collector::contract::instantiate,
        fee_collector::contract::query,
    ).with_migrate(fee_collector::contract::migrate))
}

pub const DAY: u64 = 86400;
pub const YEAR: u64 = 31556926;
pub const BASE_DENOMS: [&str; 5] = ["uom", "uusd", "uusdc", "uusdt", "uweth"];
pub const NUSERS: usize = 5;

#[derive(Clone, Debug)]
pub struct SysCfg {
    pub farm_fee: Coin,
    pub pool_fee: Coin,
    pub tf_fee: Vec<Coin>,
    pub max_farms: u32,
    pub epoch_buffer: u32,
    pub min_unlock: u64,
    pub max_unlock: u64,
    pub farm_expiration: u64,
    pub penalty: Decimal,
    pub epoch_duration: u64,
    /// genesis = block time + offset
    pub genesis_offset: u64,
    /// instantiate the contracts with a chain-level (migration) admin - the owner's account. Off by default: without an admin
    /// nobody can migrate, and code that confuses the owner with the admin is visible to the authorisation graph
    pub admin: bool,
}
impl Default for SysCfg {
    fn default() -> Self {
        SysCfg {
            admin: false,
            farm_fee: coin(1000, "uom"),
            pool_fee: coin(1000, "uusd"),
            tf_fee: vec![coin(8888, "uom")],
            max_farms: 2,
            epoch_buffer: 14,
            min_unlock: DAY,
            max_unlock: YEAR,
            farm_expiration: 2_629_746,
            penalty: Decimal::percent(10),
            epoch_duration: DAY,
            genesis_offset: 0,
        }
    }
}

pub struct Sys {
    pub cfg: SysCfg,
    pub plan: Plan,
    pub app: TApp,
    pub users: Vec<Addr>,
    pub epoch: Addr,
    pub fee: Addr,
    pub farm: Addr,
    pub pool: Addr,
    /// an address nobody controls, used as "arbitrary account"
    pub stranger: Addr,
    /// extra denoms to track (LP denoms etc.), real denom -> symbol
    pub denom_sym: BTreeMap<String, String>,
}

impl Sys {
    pub fn new(cfg: SysCfg) -> Sys {
        let api = MockApiBech32::new("mantra");
        let names = ["alice", "bob", "carol", "dave", "erin"];
        let users: Vec<Addr> = names.iter().map(|n| api.addr_make(n)).collect();
        let stranger = api.addr_make("stranger");
        let init: Vec<Coin> = BASE_DENOMS
            .iter()
            .map(|d| coin(10u128.pow(37), *d))
            .collect();
        let mut bals: Vec<(Addr, Vec<Coin>)> =
            users.iter().map(|u| (u.clone(), init.clone())).collect();
        bals.push((stranger.clone(), init.clone()));
        let plan: Plan = Rc::new(RefCell::new(FaultPlan::default()));
        let tf_fee = cfg.tf_fee.clone();
        let mut app: TApp = AppBuilder::new()
            .with_api(api)
            .with_wasm(WasmKeeper::default())
            .with_bank(FaultyBank {
                inner: BankKeeper::new(),
                plan: plan.clone(),
            })
            .with_stargate(FaultyStargate {
                inner: StargateMock::new(tf_fee),
                plan: plan.clone(),
            })
            .build(|router, _api, storage| {
                for (a, c) in bals {
                    router.bank.inner.init_balance(storage, &a, c).unwrap();
                }
            });
        let owner = users[0].clone();
        let t0 = app.block_info().time;
        let e_id = app.store_code(c_epoch());
        let epoch = app
            .instantiate_contract(
                e_id,
                owner.clone(),
                &mantra_dex_std::epoch_manager::InstantiateMsg {
                    owner: owner.to_string(),
                    epoch_config: EpochConfig {
                        duration: Uint64::new(cfg.epoch_duration),
                        genesis_epoch: Uint64::new(t0.seconds() + cfg.genesis_offset),
                    },
                },
                &[],
                "epoch",
                if cfg.admin { Some(owner.to_string()) } else { None },
            )
            .unwrap();
        let f_id = app.store_code(c_fee());
        let fee = app
            .instantiate_contract(
                f_id,
                owner.clone(),
                &mantra_dex_std::fee_collector::InstantiateMsg {},
                &[],
                "fee",
                if cfg.admin { Some(owner.to_string()) } else { None },
            )
            .unwrap();
        let fm_id = app.store_code(c_farm());
        let farm = app
            .instantiate_contract(
                fm_id,
                owner.clone(),
                &fm::InstantiateMsg {
                    owner: owner.to_string(),
                    epoch_manager_addr: epoch.to_string(),
                    fee_collector_addr: fee.to_string(),
                    pool_manager_addr: "".to_string(),
                    create_farm_fee: cfg.farm_fee.clone(),
                    max_concurrent_farms: cfg.max_farms,
                    max_farm_epoch_buffer: cfg.epoch_buffer,
                    min_unlocking_duration: cfg.min_unlock,
                    max_unlocking_duration: cfg.max_unlock,
                    farm_expiration_time: cfg.farm_expiration,
                    emergency_unlock_penalty: cfg.penalty,
                },
                &[],
                "farm",
                if cfg.admin { Some(owner.to_string()) } else { None },
            )
            .unwrap();
        let pm_id = app.store_code(c_pool());
        let pool = app
            .instantiate_contract(
                pm_id,
                owner.clone(),
                &pm::InstantiateMsg {
                    fee_collector_addr: fee.to_string(),
                    farm_manager_addr: farm.to_string(),
                    pool_creation_fee: cfg.pool_fee.clone(),
                },
                &[],
                "pool",
                if cfg.admin { Some(owner.to_string()) } else { None },
            )
            .unwrap();
        app.execute_contract(
            owner.clone(),
            farm.clone(),
            &fm::ExecuteMsg::UpdateConfig {
                fee_collector_addr: None,
                epoch_manager_addr: None,
                pool_manager_addr: Some(pool.to_string()),
                create_farm_fee: None,
                max_concurrent_farms: None,
                max_farm_epoch_buffer: None,
                min_unlocking_duration: None,
                max_unlocking_duration: None,
                farm_expiration_time: None,
                emergency_unlock_penalty: None,
            },
            &[],
        )
        .unwrap();
        let mut denom_sym = BTreeMap::new();
        for d in BASE_DENOMS {
            denom_sym.insert(d.to_string(), d.to_string());
        }
        Sys {
            cfg,
            plan,
            app,
            users,
            epoch,
            fee,
            farm,
            pool,
            stranger,
            denom_sym,
        }
    }

    // ------------------------------------------------------------------ names
    /// symbolic account names used in traces
    pub fn accts(&self) -> Vec<(String, Addr)> {
        let mut v: Vec<(String, Addr)> = self
            .users
            .iter()
            .enumerate()
            .map(|(i, a)| (format!("u{}", i + 1), a.clone()))
            .collect();
        v.push(("pm".into(), self.pool.clone()));
        v.push(("fm".into(), self.farm.clone()));
        v.push(("fc".into(), self.fee.clone()));
        v.push(("em".into(), self.epoch.clone()));
        v.push(("xx".into(), self.stranger.clone()));
        v
    }
    pub fn addr_of(&self, sym: &str) -> Addr {
        for (s, a) in self.accts() {
            if s == sym {
                return a;
            }
        }
        panic!("unknown account symbol {sym}")
    }
    pub fn sym_of(&self, addr: &str) -> String {
        for (s, a) in self.accts() {
            if a.as_str() == addr {
                return s;
            }
        }
        format!("other:{addr}")
    }
    /// symbol for a denom: base denoms are themselves; LP denoms of our pool manager are "LP:<pool id>"
    pub fn dsym(&self, denom: &str) -> String {
        if let Some(s) = self.denom_sym.get(denom) {
            return s.clone();
        }
        let prefix = format!("factory/{}/", self.pool);
        if let Some(rest) = denom.strip_prefix(&prefix) {
            if let Some(id) = rest.strip_suffix(".LP") {
                return format!("LP:{id}");
            }
        }
        format!("X:{denom}")
    }
    pub fn balance(&self, a: &Addr, denom: &str) -> u128 {
        self.app.wrap().query_balance(a.to_string(), denom).map(|c| c.amount.u128()).unwrap_or(0)
    }
    pub fn lp_denom(&self, pool_id: &str) -> String {
        format!("factory/{}/{}.LP", self.pool, pool_id)
    }
    /// inverse of dsym
    pub fn denom_of(&self, sym: &str) -> String {
        if let Some(id) = sym.strip_prefix("LP:") {
            return self.lp_denom(id);
        }
        if let Some(d) = sym.strip_prefix("X:") {
            return d.to_string();
        }
        sym.to_string()
    }
    pub fn track_denom(&mut self, denom: &str) {
        let s = self.dsym(denom);
        self.denom_sym.insert(denom.to_string(), s);
    }

    // ------------------------------------------------------------------ chain
    pub fn now(&self) -> u64 {
        self.app.block_info().time.seconds()
    }
    pub fn advance(&mut self, secs: u64) {
        let mut b = self.app.block_info();
        b.time = b.time.plus_seconds(secs);
        b.height += 1;
        self.app.set_block(b);
    }
    pub fn set_time(&mut self, secs: u64) {
        let mut b = self.app.block_info();
        b.time = cosmwasm_std::Timestamp::from_seconds(secs);
        b.height += 1;
        self.app.set_block(b);
    }
    pub fn bal(&self, a: &Addr, d: &str) -> u128 {
        self.app.wrap().query_balance(a, d).unwrap().amount.u128()
    }
    pub fn supply(&self, d: &str) -> u128 {
        self.app.wrap().query_supply(d).unwrap().amount.u128()
    }
    pub fn exec_fm(
        &mut self,
        sender: &Addr,
        m: &fm::ExecuteMsg,
        f: &[Coin],
    ) -> anyhow::Result<AppResponse> {
        self.app
            .execute_contract(sender.clone(), self.farm.clone(), m, f)
    }
    pub fn exec_pm(
        &mut self,
        sender: &Addr,
        m: &pm::ExecuteMsg,
        f: &[Coin],
    ) -> anyhow::Result<AppResponse> {
        self.app
            .execute_contract(sender.clone(), self.pool.clone(), m, f)
    }
    pub fn cur_epoch(&self) -> Option<u64> {
        let r: Result<mantra_dex_std::epoch_manager::EpochResponse, _> =
            self.app.wrap().query_wasm_smart(
                self.epoch.clone(),
                &mantra_dex_std::epoch_manager::QueryMsg::CurrentEpoch {},
            );
        r.ok().map(|r| r.epoch.id)
    }
    /// whole-chain storage digest (bank + every contract), layout-agnostic
    pub fn digest(&self) -> u64 {
        use cosmwasm_std::Storage;
        use std::hash::{Hash, Hasher};
        let mut h = std::collections::hash_map::DefaultHasher::new();
        for (k, v) in self
            .app
            .storage()
            .range(None, None, cosmwasm_std::Order::Ascending)
        {
            k.hash(&mut h);
            v.hash(&mut h);
        }
        h.finish()
    }
    pub fn arm(&self, fail_at: Option<usize>) {
        let mut p = self.plan.borrow_mut();
        p.armed = true;
        p.counter = 0;
        p.log.clear();
        p.fail_at = fail_at;
    }
    pub fn disarm(&self) -> (usize, Vec<serde_json::Value>) {
        let mut p = self.plan.borrow_mut();
        p.armed = false;
        p.fail_at = None;
        (p.counter, p.log.clone())
    }
}

// ---------------------------------------------------------------------- panics are data
thread_local! { static QUIET: std::cell::Cell<bool> = const { std::cell::Cell::new(false) }; }
pub fn install_panic_hook() {
    let default = std::panic::take_hook();
    std::panic::set_hook(Box::new(move |info| {
        if !QUIET.with(|q| q.get()) {
            default(info);
        }
    }));
}
/// run `f`; a panic inside the code under test is returned as Err("panic: ..")
impl Sys {
    /// stores fresh code of contract `code` ("pm", "fm", "em", "fc") and asks the chain to migrate contract `c` to it, as `sender`
    pub fn try_migrate(&mut self, c: &str, code: &str, sender: &Addr) -> Result<(), String> {
        let id = self.app.store_code(match code { "pm" => c_pool(), "fm" => c_farm(), "em" => c_epoch(), _ => c_fee() });
        let target = match c { "pm" => self.pool.clone(), "fm" => self.farm.clone(), "em" => self.epoch.clone(), _ => self.fee.clone() };
        let app = &mut self.app;
        let sender = sender.clone();
        match guarded(std::panic::AssertUnwindSafe(|| app.migrate_contract(sender, target, &Empty {}, id))) {
            Ok(Ok(_)) => Ok(()),
            Ok(Err(e)) => Err(format!("{:#}", e.root_cause())),
            Err(p) => Err(format!("panic: {p}")),
        }
    }
    /// rewrites the pool manager's storage the way a v1.2.0 deployment looked (pool records without a status, stored
    /// version 1.2.0), so that the real `migrate` entry point performs its v1.3.0 step
    pub fn downgrade_pool_manager_storage(&mut self) -> Result<usize, String> {
        self.downgrade_pool_manager_storage_with(false)
    }
    /// `legacy_sorted`: the stored reserves are written in alphabetical denom order whatever the pool's own asset order is - the
    /// state releases before the repair of F10 left behind after a deposit with a liquidity tolerance
    pub fn downgrade_pool_manager_storage_with(&mut self, legacy_sorted: bool) -> Result<usize, String> {
        use cosmwasm_std::Order;
        use cw_storage_plus::Map;
        #[derive(serde::Serialize, serde::Deserialize)]
        struct OldPoolInfo {
            pool_identifier: String,
            asset_denoms: Vec<String>,
            lp_denom: String,
            asset_decimals: Vec<u8>,
            assets: Vec<Coin>,
            pool_type: pm::PoolType,
            pool_fees: mantra_dex_std::fee::PoolFee,
        }
        let addr = self.pool.clone();
        let mut st = self.app.contract_storage_mut(&addr);
        let all: Vec<(String, pm::PoolInfo)> = pool_manager::state::POOLS
            .range(&*st, None, None, Order::Ascending)
            .collect::<Result<Vec<_>, _>>()
            .map_err(|e| e.to_string())?;
        let old: Map<&str, OldPoolInfo> = Map::new("pools");
        for (k, p) in all.iter() {
            let mut assets = p.assets.clone();
            if legacy_sorted {
                assets.sort_by(|a, b| a.denom.cmp(&b.denom));
            }
            old.save(&mut *st, k, &OldPoolInfo { pool_identifier: p.pool_identifier.clone(), asset_denoms: p.asset_denoms.clone(), lp_denom: p.lp_denom.clone(),
                asset_decimals: p.asset_decimals.clone(), assets, pool_type: p.pool_type.clone(), pool_fees: p.pool_fees.clone() })
                .map_err(|e| e.to_string())?;
        }
        let name = cw2::get_contract_version(&*st).map_err(|e| e.to_string())?.contract;
        cw2::set_contract_version(&mut *st, name, "1.2.0").map_err(|e| e.to_string())?;
        Ok(all.len())
    }
    /// a second farm manager with the given configuration (instantiate validation, DESIGN 9.9)
    #[allow(clippy::too_many_arguments)]
    pub fn try_instantiate_farm(&mut self, max_farms: u32, min_unlock: u64, max_unlock: u64, expiration: u64, penalty: Decimal) -> Result<Addr, String> {
        let id = self.app.store_code(c_farm());
        let owner = self.users[0].clone();
        let msg = fm::InstantiateMsg {
            owner: owner.to_string(),
            epoch_manager_addr: self.epoch.to_string(),
            fee_collector_addr: self.fee.to_string(),
            pool_manager_addr: "".to_string(),
            create_farm_fee: cosmwasm_std::coin(1000, "uom"),
            max_concurrent_farms: max_farms,
            max_farm_epoch_buffer: 14,
            min_unlocking_duration: min_unlock,
            max_unlocking_duration: max_unlock,
            farm_expiration_time: expiration,
            emergency_unlock_penalty: penalty,
        };
        let app = &mut self.app;
        match guarded(std::panic::AssertUnwindSafe(|| app.instantiate_contract(id, owner.clone(), &msg, &[], "farm2", None))) {
            Ok(Ok(a)) => Ok(a),
            Ok(Err(e)) => Err(format!("{:#}", e)),
            Err(p) => Err(format!("panic: {p}")),
        }
    }
}

pub fn guarded<T>(f: impl FnOnce() -> T) -> Result<T, String> {
    QUIET.with(|q| q.set(true));
    let r = std::panic::catch_unwind(std::panic::AssertUnwindSafe(f));
    QUIET.with(|q| q.set(false));
    r.map_err(|e| {
        let msg = e
            .downcast_ref::<String>()
            .cloned()
            .or_else(|| e.downcast_ref::<&str>().map(|s| s.to_string()))
            .unwrap_or_default();
        format!("panic: {msg}")
    })
}

impl Sys {
    /// smart query; contract errors and panics are both Err
    pub fn query<T: serde::de::DeserializeOwned>(
        &self,
        c: &Addr,
        msg: &impl serde::Serialize,
    ) -> Result<T, String> {
        match guarded(|| self.app.wrap().query_wasm_smart::<T>(c.clone(), msg)) {
            Ok(Ok(v)) => Ok(v),
            Ok(Err(e)) => Err(format!("{e}")),
            Err(p) => Err(p),
        }
    }
    /// execute; panics are converted into errors (on chain a panic aborts the transaction)
    pub fn exec(
        &mut self,
        sender: &Addr,
        c: &Addr,
        msg: &(impl serde::Serialize + std::fmt::Debug),
        funds: &[Coin],
    ) -> anyhow::Result<AppResponse> {
        let (s, c, f) = (sender.clone(), c.clone(), funds.to_vec());
        let app = &mut self.app;
        match guarded(move || app.execute_contract(s, c, msg, &f)) {
            Ok(r) => r,
            Err(p) => Err(anyhow::anyhow!(p)),
        }
    }
}
