#![allow(dead_code)]
mod drivers;
mod faulty;
mod project;
mod sys;
mod trace;

use rand::SeedableRng;

fn arg(name: &str) -> Option<String> {
    let a: Vec<String> = std::env::args().collect();
    a.iter().position(|x| x == name).and_then(|i| a.get(i + 1).cloned())
}

fn main() {
    let cmd = std::env::args().nth(1).unwrap_or_default();
    let seed: u64 = arg("--seed").map(|s| s.parse().unwrap()).unwrap_or(1);
    let thorough = arg("--tier").as_deref() == Some("thorough");
    let out = arg("--out").unwrap_or_else(|| format!("/verif/out/traces/{cmd}.ndjson"));
    let mut rng = rand::rngs::StdRng::seed_from_u64(seed ^ 0x9E37_79B9_7F4A_7C15);
    sys::install_panic_hook();
    let mut t = trace::Tracer::new(&out);
    // a panic of the driver itself (not of a contract: those are caught per call and logged as refusals) ends the recording
    // with a `driver_abort` event; everything recorded before it is still judged
    let outcome = std::panic::catch_unwind(std::panic::AssertUnwindSafe(|| match cmd.as_str() {
        "epoch" => drivers::epoch::run(&mut rng, thorough, &mut t),
        "farm" => drivers::farm::run(&mut rng, thorough, &mut t),
        "pool" => drivers::pool::run(&mut rng, thorough, &mut t),
        "fault" => drivers::fault::run(&mut rng, thorough, &mut t),
        "auth" => drivers::auth::run(&arg("--edges").expect("--edges"), &mut t),
        "stable" => drivers::pool::run_stable(&mut rng, thorough, &mut t),
        "pool_replay" => drivers::pool_replay::run(&arg("--behaviours").expect("--behaviours"), &mut t),
        "farm_replay" => drivers::farm_replay::run(
            &arg("--behaviours").expect("--behaviours"),
            arg("--rate").map(|s| s.parse().unwrap()).unwrap_or(1000),
            arg("--fstart").map(|s| s.parse().unwrap()).unwrap_or(1),
            arg("--fend").map(|s| s.parse().unwrap()).unwrap_or(5),
            &mut t,
        ),
        _ => {
            eprintln!("usage: vh <driver> [--seed N] [--tier quick|thorough] [--out path]");
            std::process::exit(2);
        }
    }));
    if let Err(p) = outcome {
        let msg = p.downcast_ref::<String>().cloned().or_else(|| p.downcast_ref::<&str>().map(|s| s.to_string())).unwrap_or_else(|| "panic".into());
        t.emit("driver_abort", serde_json::json!({"what": msg.chars().take(300).collect::<String>()}));
    }
    let summary = t.finish();
    println!("{}", serde_json::json!({"driver": cmd, "seed": seed, "out": out, "summary": summary}));
}
