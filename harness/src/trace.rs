//! ndjson trace writer: one event per executed message / query.
use serde_json::{json, Value};
use std::fs::File;
use std::io::{BufWriter, Write};

pub struct Tracer {
    out: BufWriter<File>,
    pub i: usize,
    pub sc: usize,
    pub counts: std::collections::BTreeMap<String, usize>,
}
impl Tracer {
    pub fn new(path: &str) -> Tracer {
        if let Some(dir) = std::path::Path::new(path).parent() {
            std::fs::create_dir_all(dir).ok();
        }
        Tracer {
            out: BufWriter::new(File::create(path).unwrap()),
            i: 0,
            sc: 0,
            counts: Default::default(),
        }
    }
    /// start a new scenario: the event carries the full initial state
    pub fn reset(&mut self, name: &str, st: Value) {
        self.sc += 1;
        // the account and LP-denom universes of the scenario, for the specification's ghost state
        let accts: Vec<String> = st.get("bal").and_then(|b| b.as_object()).map(|m| m.keys().cloned().collect()).unwrap_or_default();
        let denoms: Vec<String> = st.get("supply").and_then(|b| b.as_object()).map(|m| m.keys().cloned().collect()).unwrap_or_default();
        let lps: Vec<String> = denoms.iter().filter(|d| d.starts_with("LP:")).cloned().collect();
        self.emit("reset", json!({"name": name, "post": st, "accts": accts, "denoms": denoms, "lps": lps}));
    }
    pub fn emit(&mut self, ev: &str, mut body: Value) {
        self.i += 1;
        *self.counts.entry(ev.to_string()).or_default() += 1;
        let o = body.as_object_mut().unwrap();
        o.insert("i".into(), json!(self.i));
        o.insert("sc".into(), json!(self.sc));
        o.insert("ev".into(), json!(ev));
        writeln!(self.out, "{}", body).unwrap();
    }
    pub fn finish(mut self) -> Value {
        self.out.flush().unwrap();
        json!({"events": self.i, "scenarios": self.sc, "by_kind": self.counts})
    }
}

/// classify an execution error for the trace (the spec only distinguishes a few classes)
pub fn err_class(e: &anyhow::Error) -> String {
    let s = e.root_cause().to_string();
    let l = s.to_lowercase();
    if l.contains("injected fault") {
        "injected".into()
    } else if l.contains("unauthorized") || l.contains("caller is not the contract's current owner") || l.contains("not the contract's") {
        "unauthorized".into()
    } else if l.contains("slippage") || l.contains("spread") {
        "slippage".into()
    } else if l.contains("minimum receive") {
        "min_receive".into()
    } else if l.contains("disabled") {
        "disabled".into()
    } else if l.contains("no funds") || l.contains("nonpayable") || l.contains("does not accept funds") || l.contains("this message does no accept funds") {
        "nonpayable".into()
    } else if l.contains("farmexhausted") || l.contains("farm has been exhausted") || l.contains("exhausted") {
        "farm_exhausted".into()
    } else if l.contains("pending rewards") {
        "pending_rewards".into()
    } else if l.contains("not expired") || l.contains("hasn't expired") {
        "not_expired".into()
    } else if l.contains("empty coins") {
        "empty_coins".into()
    } else {
        "rejected".into()
    }
}
pub fn err_text(e: &anyhow::Error) -> String {
    let s = e.root_cause().to_string();
    s.chars().take(300).collect()
}
