//! Projection of the live deployment onto the abstract state of the TLA+ specification.
//! Amounts are written as little-endian base-10^4 limb arrays (BigNat.tla); small integers
//! (epoch ids, decimals, counts) as JSON numbers; absent values as the string "none".
use crate::sys::*;
use cosmwasm_std::{Decimal, Uint128};
use mantra_dex_std::farm_manager as fm;
use mantra_dex_std::pool_manager as pm;
use serde_json::{json, Map, Value};

pub fn limbs(mut x: u128) -> Value {
    let mut v = vec![];
    while x > 0 {
        v.push(json!((x % 10000) as u64));
        x /= 10000;
    }
    Value::Array(v)
}
/// decimal string of arbitrary length -> limbs
pub fn limbs_str(s: &str) -> Value {
    let s = s.trim_start_matches('0');
    let b = s.as_bytes();
    let mut v = vec![];
    let mut end = b.len();
    while end > 0 {
        let start = end.saturating_sub(4);
        let chunk = std::str::from_utf8(&b[start..end]).unwrap();
        v.push(json!(chunk.parse::<u64>().unwrap()));
        end = start;
    }
    Value::Array(v)
}
pub fn limbs64(x: u64) -> Value {
    limbs(x as u128)
}
pub fn dec(d: Decimal) -> Value {
    limbs(d.atomics().u128())
}
pub fn u(x: Uint128) -> Value {
    limbs(x.u128())
}
pub fn opt_dec(d: Option<Decimal>) -> Value {
    match d {
        Some(d) => dec(d),
        None => json!("none"),
    }
}

#[derive(Clone, Copy, Default)]
pub struct Mask {
    pub pools: bool,
    pub farms: bool,
    pub owners: bool,
    pub epoch: bool,
}
impl Mask {
    pub fn all() -> Mask {
        Mask {
            pools: true,
            farms: true,
            owners: true,
            epoch: true,
        }
    }
    pub fn pool() -> Mask {
        Mask {
            pools: true,
            ..Default::default()
        }
    }
    pub fn farm() -> Mask {
        Mask {
            farms: true,
            epoch: true,
            ..Default::default()
        }
    }
}

impl Sys {
    pub fn q_pools(&self) -> Vec<pm::PoolInfoResponse> {
        let mut out: Vec<pm::PoolInfoResponse> = vec![];
        let mut start_after: Option<String> = None;
        loop {
            let r: pm::PoolsResponse = self
                .app
                .wrap()
                .query_wasm_smart(
                    self.pool.clone(),
                    &pm::QueryMsg::Pools {
                        pool_identifier: None,
                        start_after: start_after.clone(),
                        limit: Some(100),
                    },
                )
                .unwrap();
            if r.pools.is_empty() {
                break;
            }
            start_after = Some(r.pools.last().unwrap().pool_info.pool_identifier.clone());
            let n = r.pools.len();
            out.extend(r.pools);
            if n < 100 {
                break;
            }
        }
        out
    }
    pub fn q_pool(&self, id: &str) -> Option<pm::PoolInfoResponse> {
        let r: Result<pm::PoolsResponse, _> = self.app.wrap().query_wasm_smart(
            self.pool.clone(),
            &pm::QueryMsg::Pools {
                pool_identifier: Some(id.to_string()),
                start_after: None,
                limit: None,
            },
        );
        r.ok().and_then(|mut r| r.pools.pop())
    }
    pub fn q_farms(&self) -> Vec<fm::Farm> {
        let mut out: Vec<fm::Farm> = vec![];
        let mut start_after: Option<String> = None;
        loop {
            let r: fm::FarmsResponse = self
                .app
                .wrap()
                .query_wasm_smart(
                    self.farm.clone(),
                    &fm::QueryMsg::Farms {
                        filter_by: None,
                        start_after: start_after.clone(),
                        limit: Some(100),
                    },
                )
                .unwrap();
            if r.farms.is_empty() {
                break;
            }
            start_after = Some(r.farms.last().unwrap().identifier.clone());
            let n = r.farms.len();
            out.extend(r.farms);
            if n < 100 {
                break;
            }
        }
        out
    }
    pub fn q_positions(&self) -> Vec<fm::Position> {
        // the unfiltered query is capped at 10 per page
        let mut out: Vec<fm::Position> = vec![];
        let mut start_after: Option<String> = None;
        loop {
            let r: fm::PositionsResponse = self
                .app
                .wrap()
                .query_wasm_smart(
                    self.farm.clone(),
                    &fm::QueryMsg::Positions {
                        filter_by: None,
                        open_state: None,
                        start_after: start_after.clone(),
                        limit: Some(10),
                    },
                )
                .unwrap();
            if r.positions.is_empty() {
                break;
            }
            start_after = Some(r.positions.last().unwrap().identifier.clone());
            let n = r.positions.len();
            out.extend(r.positions);
            if n < 10 {
                break;
            }
        }
        out
    }
    pub fn q_weight(&self, a: &cosmwasm_std::Addr, lp: &str, e: u64) -> Option<u128> {
        let r: Result<fm::LpWeightResponse, _> = self.app.wrap().query_wasm_smart(
            self.farm.clone(),
            &fm::QueryMsg::LpWeight {
                address: a.to_string(),
                denom: lp.to_string(),
                epoch_id: e,
            },
        );
        r.ok().map(|x| x.lp_weight.u128())
    }
    pub fn q_fm_config(&self) -> fm::Config {
        self.app
            .wrap()
            .query_wasm_smart(self.farm.clone(), &fm::QueryMsg::Config {})
            .unwrap()
    }
    pub fn q_pm_config(&self) -> pm::Config {
        self.app
            .wrap()
            .query_wasm_smart(self.pool.clone(), &pm::QueryMsg::Config {})
            .unwrap()
    }
    pub fn q_em_config(&self) -> mantra_dex_std::epoch_manager::ConfigResponse {
        self.app
            .wrap()
            .query_wasm_smart(
                self.epoch.clone(),
                &mantra_dex_std::epoch_manager::QueryMsg::Config {},
            )
            .unwrap()
    }
    pub fn q_owner(&self, c: &cosmwasm_std::Addr) -> Value {
        // all four contracts answer {"ownership":{}}
        let r: cw_ownable::Ownership<String> = self
            .app
            .wrap()
            .query_wasm_smart(c.clone(), &pm::QueryMsg::Ownership {})
            .unwrap();
        json!({
            "owner": r.owner.map(|a| self.sym_of(&a)).unwrap_or("none".into()),
            "pending": r.pending_owner.map(|a| self.sym_of(&a)).unwrap_or("none".into()),
            "expiry": match r.pending_expiry { None => json!("none"), Some(e) => json!(format!("{e}")) },
        })
    }

    pub fn fee_json(&self, f: &mantra_dex_std::fee::PoolFee) -> Value {
        json!({
            "protocol": dec(f.protocol_fee.share),
            "swap": dec(f.swap_fee.share),
            "burn": dec(f.burn_fee.share),
            "extra": f.extra_fees.iter().map(|e| dec(e.share)).collect::<Vec<_>>(),
        })
    }
    pub fn pool_json(&self, p: &pm::PoolInfoResponse) -> Value {
        let i = &p.pool_info;
        let (kind, amp) = match i.pool_type {
            pm::PoolType::ConstantProduct => ("cp", 0u64),
            pm::PoolType::StableSwap { amp } => ("ss", amp),
        };
        json!({
            "kind": kind,
            "amp": limbs64(amp),
            "denoms": i.asset_denoms.iter().map(|d| self.dsym(d)).collect::<Vec<_>>(),
            "adenoms": i.assets.iter().map(|c| self.dsym(&c.denom)).collect::<Vec<_>>(),
            "dec": i.asset_decimals,
            "res": i.assets.iter().map(|c| u(c.amount)).collect::<Vec<_>>(),
            "fee": self.fee_json(&i.pool_fees),
            "sw": i.status.swaps_enabled, "dep": i.status.deposits_enabled, "wd": i.status.withdrawals_enabled,
            "lp": self.dsym(&i.lp_denom),
            "supply": u(p.total_share.amount),
        })
    }

    /// the projected state
    pub fn snapshot(&mut self, mask: Mask) -> Value {
        let mut st = Map::new();
        st.insert("now".into(), limbs64(self.now()));
        // pools first: registers LP denoms to track
        let pools = if mask.pools || mask.farms {
            self.q_pools()
        } else {
            vec![]
        };
        for p in &pools {
            let d = p.pool_info.lp_denom.clone();
            self.track_denom(&d);
        }
        if mask.pools {
            let mut m = Map::new();
            for p in &pools {
                m.insert(p.pool_info.pool_identifier.clone(), self.pool_json(p));
            }
            st.insert("pools".into(), Value::Object(m));
            let c = self.q_pm_config();
            st.insert("pm_buffer".into(), json!(self.has_single_side_buffer()));
            st.insert(
                "pmcfg".into(),
                json!({"fc": self.sym_of(c.fee_collector_addr.as_str()), "fm": self.sym_of(c.farm_manager_addr.as_str()),
                       "fee": {"denom": self.dsym(&c.pool_creation_fee.denom), "amt": u(c.pool_creation_fee.amount)}}),
            );
        }
        // balances and supplies of every tracked denom for every tracked account
        let denoms: Vec<(String, String)> = self
            .denom_sym
            .iter()
            .map(|(a, b)| (a.clone(), b.clone()))
            .collect();
        let mut bal = Map::new();
        for (s, a) in self.accts() {
            let mut m = Map::new();
            for (d, ds) in &denoms {
                m.insert(ds.clone(), limbs(self.bal(&a, d)));
            }
            bal.insert(s, Value::Object(m));
        }
        st.insert("bal".into(), Value::Object(bal));
        let mut sup = Map::new();
        for (d, ds) in &denoms {
            sup.insert(ds.clone(), limbs(self.supply(d)));
        }
        st.insert("supply".into(), Value::Object(sup));
        if mask.epoch {
            let c = self.q_em_config();
            st.insert(
                "em".into(),
                json!({"genesis": limbs64(c.epoch_config.genesis_epoch.u64()), "duration": limbs64(c.epoch_config.duration.u64()),
                       "cur": match self.cur_epoch() { Some(e) => json!(e), None => json!(-1) }}),
            );
        }
        if mask.farms {
            st.insert("fm".into(), self.farm_json());
        }
        if mask.owners {
            let mut m = Map::new();
            for (s, a) in [
                ("pm", self.pool.clone()),
                ("fm", self.farm.clone()),
                ("em", self.epoch.clone()),
                ("fc", self.fee.clone()),
            ] {
                m.insert(s.into(), self.q_owner(&a));
            }
            st.insert("own".into(), Value::Object(m));
        }
        Value::Object(st)
    }

    /// is the temporary single-asset-deposit bookkeeping record present in the chain store?
    pub fn has_single_side_buffer(&self) -> bool {
        use cosmwasm_std::Storage;
        let needle = b"single_side_liquidity_provision_buffer";
        self.app
            .storage()
            .range(None, None, cosmwasm_std::Order::Ascending)
            .any(|(k, _)| k.windows(needle.len()).any(|w| w == needle))
    }
    pub fn farm_json(&self) -> Value {
        let c = self.q_fm_config();
        let cur = self.cur_epoch();
        let farms = self.q_farms();
        let poss = self.q_positions();
        let mut fj = Map::new();
        for f in &farms {
            fj.insert(
                f.identifier.clone(),
                json!({"owner": self.sym_of(f.owner.as_str()), "lp": self.dsym(&f.lp_denom), "denom": self.dsym(&f.farm_asset.denom),
                       "amount": u(f.farm_asset.amount), "claimed": u(f.claimed_amount), "rate": u(f.emission_rate),
                       // TLC integers are 32 bit: epochs beyond 10^9 are reported as 10^9 (saturating projection)
                       "start": f.start_epoch.min(1_000_000_000), "end": f.preliminary_end_epoch.min(1_000_000_000)}),
            );
        }
        let mut pj = Map::new();
        for p in &poss {
            pj.insert(
                p.identifier.clone(),
                json!({"owner": self.sym_of(p.receiver.as_str()), "lp": self.dsym(&p.lp_asset.denom), "amt": u(p.lp_asset.amount),
                       "dur": limbs64(p.unlocking_duration), "open": p.open,
                       "expiring": match p.expiring_at { Some(t) => json!({"set": true, "t": limbs64(t)}), None => json!({"set": false, "t": []}) }}),
            );
        }
        // weight history: for every tracked account and LP denom, the sparse map epoch -> weight,
        // read through the public LpWeight query for epochs 0..=cur+1
        let mut hist = Map::new();
        if let Some(cur) = cur {
            let lps: Vec<(String, String)> = self
                .denom_sym
                .iter()
                .filter(|(_, s)| s.starts_with("LP:"))
                .map(|(a, b)| (a.clone(), b.clone()))
                .collect();
            for (s, a) in self.accts() {
                if s == "fc" || s == "em" {
                    continue;
                }
                let mut per_lp = Map::new();
                for (d, ds) in &lps {
                    let mut m = vec![];
                    for e in 0..=cur + 1 {
                        if let Some(w) = self.q_weight(&a, d, e) {
                            m.push(json!({"e": e, "w": limbs(w)}));
                        }
                    }
                    per_lp.insert(ds.clone(), Value::Array(m));
                }
                hist.insert(s, Value::Object(per_lp));
            }
        }
        json!({
            "cfg": {"fc": self.sym_of(c.fee_collector_addr.as_str()), "em": self.sym_of(c.epoch_manager_addr.as_str()),
                    "pm": self.sym_of(c.pool_manager_addr.as_str()),
                    "fee": {"denom": self.dsym(&c.create_farm_fee.denom), "amt": u(c.create_farm_fee.amount)},
                    "maxFarms": c.max_concurrent_farms, "buffer": c.max_farm_epoch_buffer,
                    "minDur": limbs64(c.min_unlocking_duration), "maxDur": limbs64(c.max_unlocking_duration),
                    "expiry": limbs64(c.farm_expiration_time), "penalty": dec(c.emergency_unlock_penalty)},
            "farms": fj, "pos": pj, "hist": hist,
        })
    }
}
